"""C19 - evaluation is total and reports exactly the documented recommendations."""
import copy, json
import impl, gen, treeval
from metapype.model.node import Node
from metapype.eml import evaluate
from metapype.eml.evaluation_warnings import EvaluationWarning


def normalize(s):
    """independent reading of the documented text normalisation: NBSP -> space, pieces between spaces trimmed, empty pieces dropped"""
    return " ".join(w.strip() for w in s.replace("\xa0", " ").split(" ") if w.strip() != "")


def title_unspecified(s):
    """whether tab / newline (or other non-space whitespace) separates words is not fixed by 'title under 5 words': the title is
    unspecified exactly when the two readings (only space / NBSP separate words; any white space does) fall on different sides of the
    threshold.  A piece that consists of white space only is a word under neither reading."""
    a = len(normalize(s).split(" ")) if normalize(s) else 0
    b = len(s.split())
    return (a < 5) != (b < 5)


TRUSTED = ["message texts are not compared, only (warning code, node)",
           "the declarative oracle in this file covers title, abstract, keywords, coverage/data table/rights/methods/project, parties, individual names, entity descriptions and listed-parent descriptions; data-table physical details are compared with the Lean model only"]

PARTIES = {"associatedParty", "contact", "creator", "metadataProvider", "personnel"}
DESC_PARENTS = {"connectionDefinition": "CONNECTION_DEFINITION_DESCRIPTION_MISSING", "designDescription": "DESIGN_DESCRIPTION_DESCRIPTION_MISSING",
                "maintenance": "MAINTENANCE_DESCRIPTION_MISSING", "methodStep": "METHOD_STEP_DESCRIPTION_MISSING",
                "procedureStep": "PROCEDURE_STEP_DESCRIPTION_MISSING", "qualityControl": "QUALITY_CONTROL_DESCRIPTION_MISSING",
                "samplingDescription": "SAMPLING_DESCRIPTION_DESCRIPTION_MISSING", "studyExtent": "STUDY_EXTENT_DESCRIPTION_MISSING"}
ORACLE_CODES = {"TITLE_TOO_SHORT", "DATASET_ABSTRACT_TOO_SHORT", "DATASET_ABSTRACT_MISSING", "KEYWORDS_MISSING", "KEYWORDS_INSUFFICIENT",
                "DATASET_COVERAGE_MISSING", "DATATABLE_MISSING", "INTELLECTUAL_RIGHTS_MISSING", "DATASET_METHOD_STEPS_MISSING", "DATASET_PROJECT_MISSING",
                "ORCID_ID_MISSING", "USER_ID_MISSING", "EMAIL_MISSING", "INDIVIDUAL_NAME_INCOMPLETE", "OTHER_ENTITY_DESCRIPTION_MISSING",
                "DATATABLE_DESCRIPTION_MISSING", "DATATABLE_SIZE_MISSING", "DATATABLE_MD5_CHECKSUM_MISSING", "DATATABLE_NUMBER_OF_RECORDS_MISSING",
                "DATATABLE_RECORD_DELIMITER_MISSING"} | set(DESC_PARENTS.values())


def words(n):
    return " ".join(f"w{i}" for i in range(n))


def text_of(t):
    """all text of a TextType element: own content, then para / markdown descendants that have text"""
    out = [t[2]] if t[2] else []
    for nm in ("para", "markdown"):
        out += [x[2] for _, x in list(gen.nodes_of(t))[1:] if x[1] == nm and x[2]]
    return out


def expected(t, parent=None, path=()):
    """declarative recommendations (subset ORACLE_CODES) as a set of (code, path)"""
    out = []
    name, kids = t[1], t[8]
    def has(nm, pred=lambda k: True):
        return any(k[1] == nm and pred(k) for k in kids)
    txt = lambda k: bool(k[2])
    if name == "title" and parent == "dataset" and t[2] is not None and not title_unspecified(t[2]):
        if len(normalize(t[2]).split(" ")) < 5:
            out.append(("TITLE_TOO_SHORT", path))
    if name == "dataset":
        abstracts = [k for k in kids if k[1] == "abstract"]
        pieces = text_of(abstracts[-1]) if abstracts else []
        if not pieces:
            out.append(("DATASET_ABSTRACT_MISSING", path))
        elif sum(len(p.split()) for p in pieces) < 20:
            out.append(("DATASET_ABSTRACT_TOO_SHORT", path))
        cov = [k for k in kids if k[1] == "coverage"]
        if not cov or not cov[-1][8]:
            out.append(("DATASET_COVERAGE_MISSING", path))
        if not has("dataTable"):
            out.append(("DATATABLE_MISSING", path))
        ir = [k for k in kids if k[1] == "intellectualRights"]
        if not ir or not ir[-1][2]:
            out.append(("INTELLECTUAL_RIGHTS_MISSING", path))
        ks = [k for k in kids if k[1] == "keywordSet"]
        if not ks:
            out.append(("KEYWORDS_MISSING", path))
        elif sum(1 for s in ks for k in s[8] if k[1] == "keyword") < 5:
            out.append(("KEYWORDS_INSUFFICIENT", path))
        if not has("methods"):
            out.append(("DATASET_METHOD_STEPS_MISSING", path))
        if not has("project"):
            out.append(("DATASET_PROJECT_MISSING", path))
    if name in PARTIES:
        if not has("userId", lambda k: txt(k) and dict(k[5]).get("directory") == "https://orcid.org"):
            out.append(("ORCID_ID_MISSING", path))
        if not has("userId", txt):
            out.append(("USER_ID_MISSING", path))
        if not has("electronicMailAddress", txt):
            out.append(("EMAIL_MISSING", path))
    if name == "individualName" and not (has("givenName", txt) and has("surName", txt)):
        out.append(("INDIVIDUAL_NAME_INCOMPLETE", path))
    if name == "otherEntity" and not has("entityDescription", txt):
        out.append(("OTHER_ENTITY_DESCRIPTION_MISSING", path))
    if name == "dataTable" and not has("entityDescription", txt):
        out.append(("DATATABLE_DESCRIPTION_MISSING", path))
    if name == "dataTable":
        # documented choice among duplicates: the FIRST physical; inside it the last size / authentication / dataFormat;
        # the record delimiter of the first textFormat (if it has one) else the last one directly under physical; the first numberOfRecords
        phys = next((k for k in kids if k[1] == "physical"), None)
        pk = phys[8] if phys else []
        last = lambda nm, l: next((k for k in reversed(l) if k[1] == nm), None)
        first = lambda nm, l: next((k for k in l if k[1] == nm), None)
        size, auth, df, rd = last("size", pk), last("authentication", pk), last("dataFormat", pk), last("recordDelimiter", pk)
        tf = first("textFormat", df[8]) if df else None
        if tf is not None and first("recordDelimiter", tf[8]) is not None:
            rd = first("recordDelimiter", tf[8])
        nrec = first("numberOfRecords", kids)
        empty = lambda k: k is None or not k[2]
        if empty(size):
            out.append(("DATATABLE_SIZE_MISSING", path))
        if empty(auth):
            out.append(("DATATABLE_MD5_CHECKSUM_MISSING", path))
        if empty(nrec):
            out.append(("DATATABLE_NUMBER_OF_RECORDS_MISSING", path))
        if empty(rd):
            out.append(("DATATABLE_RECORD_DELIMITER_MISSING", path))
    if name == "description" and parent in DESC_PARENTS and not text_of(t):
        out.append((DESC_PARENTS[parent], path))
    for i, k in enumerate(kids):
        out += expected(k, name, path + (i,))
    return out


def tweak(t, rng, tg):
    """place texts and counts on and around the thresholds"""
    for _, x in gen.nodes_of(t):
        nm = x[1]
        if nm == "title" and rng.random() < 0.8:
            x[2] = rng.choice([words(rng.choice([1, 4, 5, 6])), "  a  b\xa0c d  ", "a b c d\xa0e", "", " ",
                               "a b c d\ne", "a b c\td e", "a b c d \n e", "a b c d e\n", "a\nb\nc\nd\ne f",
                               "a b \n c d", "a b c \t d", "a \n b \n c", "one \n", " \n a b c d", "a b c d \x0b \n"])
        elif nm == "abstract" and rng.random() < 0.8:
            n = rng.choice([0, 19, 20, 21])
            k = rng.choice([1, 2, 3])
            parts = [words(n // k + (1 if i < n % k else 0)) for i in range(k)]
            x[2] = rng.choice([None, parts[0]]) if k > 1 else (parts[0] or None)
            x[8] = [impl.T("para", p or None, [impl.T("emphasis", "inline")] if rng.random() < 0.3 else []) for p in parts[(1 if x[2] else 0):]]
            if rng.random() < 0.2:
                x[8].append(impl.T("markdown", words(1)))
            if rng.random() < 0.2:
                x[8].insert(0, impl.T("section", None, [impl.T("para", words(2))]))
        elif nm == "keywordSet" and rng.random() < 0.7:
            x[8] = [impl.T("keyword", f"k{i}") for i in range(rng.choice([1, 2, 3, 4, 4, 5]))]
            if rng.random() < 0.5:
                x[8].append(impl.T("keywordThesaurus", "LTER"))      # allowed once per set; it is not a keyword
        elif nm in PARTIES and rng.random() < 0.7:
            x[8] = [k for k in x[8] if k[1] not in ("userId", "electronicMailAddress")]
            if rng.random() < 0.6:
                x[8].append(impl.T("electronicMailAddress", rng.choice(["a@b.c", "", None])))
            for _ in range(rng.choice([0, 1, 1, 2, 3])):
                x[8].append(impl.T("userId", rng.choice(["0000-0001", "0000-0001", "", None]), [], [["directory", rng.choice(["https://orcid.org", "other"])]]))
            if rng.random() < 0.3:
                x[8].append(impl.T("electronicMailAddress", rng.choice(["x@y.z", ""])))
        elif nm == "individualName" and rng.random() < 0.6:
            x[8] = [impl.T("givenName", rng.choice(["G", "", None])) for _ in range(rng.choice([0, 1, 1, 2, 3]))] + [impl.T("surName", rng.choice(["S", ""]))]
        elif nm == "description" and rng.random() < 0.6:
            x[2] = rng.choice([None, "", "text"]); x[8] = [impl.T("para", rng.choice([None, "", "p"]))] if rng.random() < 0.5 else []
        elif nm == "physical" and rng.random() < 0.5:
            for k in x[8]:
                if k[1] in ("size", "authentication") and rng.random() < 0.5:
                    k[2] = rng.choice([None, "", "12"])
    # a second, different physical / a second keywordSet
    for _, x in gen.nodes_of(t):
        if x[1] == "dataTable" and rng.random() < 0.4:
            ph = [k for k in x[8] if k[1] == "physical"]
            if ph:
                p2 = copy.deepcopy(ph[0]); gen.strip_ids(p2)
                p2[8] = [k for k in p2[8] if k[1] not in ("size", "authentication")]
                x[8].insert(x[8].index(ph[0]) + rng.choice([0, 1]), p2)
        if x[1] == "dataset" and rng.random() < 0.3:
            ks = [k for k in x[8] if k[1] == "keywordSet"]
            if ks:
                k2 = impl.T("keywordSet", None, [impl.T("keyword", "z")] * rng.choice([1, 2, 3]) + ([impl.T("keywordThesaurus", "T")] if rng.random() < 0.5 else []))
                x[8].insert(x[8].index(ks[0]), k2)
    gen.strip_ids(t)


def node_at(root, path):
    for i in path:
        root = root.children[i]
    return root


def run_impl(t, edits=None):
    impl.reset()
    import zlib
    if zlib.crc32(json.dumps(t).encode()) % 4 == 0:
        # node ids are caller-supplied strings and need not be unique inside a tree (a fragment loaded from JSON twice keeps its
        # ids): every node is evaluated, whatever its id
        t = copy.deepcopy(t)
        nodes_ = [x for _, x in gen.nodes_of(t)]
        for j, x in enumerate(nodes_):
            if j % 2 == 1:
                x[0] = "same-id-a" if j % 4 == 1 else "same-id-b"
    root = impl.build(t)
    pmap = treeval.paths(root)
    if edits:
        # the same node objects evaluated, edited through the API, and evaluated again: the second result describes the edited tree
        try:
            impl.limited(evaluate.tree, root, [])
        except Exception as e:
            return None, f"evaluate.tree raised {type(e).__name__}: {e}"
        for path, content in edits:
            node_at(root, path).content = content
    sentinel = ("sentinel",)
    ws = [sentinel]
    try:
        impl.limited(evaluate.tree, root, ws)
    except Exception as e:
        return None, f"evaluate.tree raised {type(e).__name__}: {e}"
    if ws[0] is not sentinel:
        return None, "earlier entries of the warnings list were disturbed"
    # the same tree evaluated once more into the SAME list: what is appended depends on the tree, not on what the list already holds
    first = list(ws)
    try:
        impl.limited(evaluate.tree, root, ws)
    except Exception as e:
        return None, f"a second evaluate.tree into the same list raised {type(e).__name__}: {e}"
    if ws[:len(first)] != first:
        return None, "earlier entries of the warnings list were disturbed by a second evaluation"
    if ws[len(first):] != first[1:]:
        return None, f"a second evaluation of the same tree into the same list appended {len(ws) - len(first)} entries, the first one {len(first) - 1}: the appended warnings depend on the list's earlier contents"
    del ws[len(first):]
    out = []
    for w in ws[1:]:
        ok = isinstance(w, tuple) and len(w) == 3 and isinstance(w[0], EvaluationWarning) and isinstance(w[1], str) and isinstance(w[2], Node) and id(w[2]) in pmap
        if not ok:
            return None, f"malformed warning entry {w!r}"[:200]
        out.append([w[0].name, list(pmap[id(w[2])])])
    return out, None


def run(ctx):
    ri = gen.RuleInfo(); tg = gen.TreeGen(ri)
    rng = ctx.rng
    N = 250 if ctx.tier == "quick" else 4000
    fails, diffs, samples, reqs, metas = [], [], [], [], []
    codes = {}
    for i in range(N):
        root_e = rng.choice(["eml", "dataset", "dataset", "dataTable", "creator", "methods", "project", "otherEntity"])
        t = tg.valid_tree(root_e, rng, maxdepth=rng.choice([2, 3, 4]), rep=rng.choice([1, 2]))
        tweak(t, rng, tg)
        if rng.random() < 0.3:
            gen.mutate(t, rng, tg, rng.choice([1, 2, 4])); gen.strip_ids(t)
        if rng.random() < 0.2:
            # rule-bearing elements inside additionalMetadata/metadata are elements of the tree like any other
            inner = tg.valid_tree(rng.choice(["creator", "dataset", "individualName", "dataTable", "otherEntity", "methodStep"]), rng, maxdepth=2, rep=1)
            tweak(inner, rng, tg)
            am = impl.T("additionalMetadata", None, [impl.T("metadata", None, [inner])])
            t[8].append(am)
            gen.strip_ids(t)
        edits = None
        if rng.random() < 0.3:
            edits = []
            for pth, x in gen.nodes_of(t):
                if x[1] in ("abstract", "para", "markdown", "title", "description", "keyword", "electronicMailAddress", "givenName", "userId") and rng.random() < 0.5:
                    new = rng.choice([None, "", words(rng.choice([1, 4, 5, 19, 20, 21])), (x[2] or "") + " " + words(3)])
                    edits.append([list(pth), new])
            t0 = t
            t = copy.deepcopy(t)
            for pth, new in edits:
                x = t
                for j in pth:
                    x = x[8][j]
                x[2] = new
            got, err = run_impl(t0, edits)
            case = {"tree": t0, "edits": edits, "tree_after_edits": t}
        else:
            got, err = run_impl(t)
            case = {"tree": t}
        if err:
            fails.append({"case": case, "what": err})
            continue
        for c, _ in got:
            codes[c] = codes.get(c, 0) + 1
        exp = sorted((c, list(p)) for c, p in expected(t))
        unspec = [list(pth) for pth, x in gen.nodes_of(t) if x[1] == "title" and x[2] is not None and title_unspecified(x[2])]
        sub = sorted((c, p) for c, p in got if c in ORACLE_CODES and not (c == "TITLE_TOO_SHORT" and p in unspec))
        if exp != sub:
            missing = [x for x in exp if x not in sub][:3]
            extra = [x for x in sub if x not in exp][:3]
            fails.append({"case": case, "what": f"warnings differ from the documented recommendations: missing {missing}, unexpected {extra}"})
        reqs.append({"op": "evaluate", "tree": t, "parent": None})
        metas.append((case, got))
        if len(samples) < 3 and 3 <= len(got) <= 8 and len(json.dumps(t)) < 2500:
            samples.append({"tree": t, "warnings": got})
    # evaluate.node on single parentless nodes of every dispatched kind
    for nm in ["description", "title", "creator", "dataset", "dataTable", "individualName", "otherEntity", "abstract", "zzUnknown"]:
        for content in (None, "", "x"):
            impl.reset()
            try:
                evaluate.node(Node(nm, content=content))
            except Exception as e:
                fails.append({"case": {"node": nm, "content": content}, "what": f"evaluate.node({nm}) raised {type(e).__name__}"})
    if ctx.driver:
        outs = ctx.driver.batch(reqs)
        for (case, got), m in zip(metas, outs):
            if m != got:
                diffs.append({"case": case, "impl": got[:12], "model": m[:12]})
    return {"evaluations": N + 27, "distinct_nontrivial": N,
            "rule": "rule-guided valid trees rooted at eml/dataset/dataTable/creator/methods/project/otherEntity with texts and counts placed at threshold-1/threshold/threshold+1 "
                    "(title 4/5/6 words incl. NBSP, abstract 0/19/20/21 words spread over content/para/markdown/section, 1-5 keywords over one or two sets, parties with/without userId, ORCID, e-mail, "
                    "names, descriptions, two differing physicals), 30% additionally mutated; plus evaluate.node on parentless nodes; all distinct and non-trivial",
            "samples": samples, "corr_diffs": diffs, "oracle_fails": fails, "distribution": {"codes": codes}}


def replay(payload, drv):
    c = payload.get("case") or {}
    if "tree" not in c:
        return {"case": c}
    got, err = run_impl(copy.deepcopy(c["tree"]), c.get("edits"))
    final = c.get("tree_after_edits") or c["tree"]
    out = {"implementation": got, "error": err, "expected_subset": sorted((a, list(b)) for a, b in expected(final))}
    if drv:
        out["model"] = drv.batch([{"op": "evaluate", "tree": final, "parent": None}])[0]
    return out


def replay_finding(f):
    return None
