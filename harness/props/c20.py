"""C20 - whitespace normalisation is idempotent and structure-preserving.
Text: strings over words and every kind of white space, compared with the Lean model and judged by a declarative
oracle.  XML: generated documents judged by an oracle over two lxml parses (input / output); the XSLT engine itself
is not modelled."""
import random
from xml.sax.saxutils import escape, quoteattr
from lxml import etree
import impl
from metapype.model.normalize import normalize
from metapype.model import normalize as normmod

TRUSTED = ["libxslt / libxml2 are not modelled: the Lean model gives the XSLT 1.0 meaning of the stylesheet on the node tree and is compared with libxslt's RESULT TREE for the stylesheet text found in the source; "
           "the indent=yes serialisation and the re-parse of the function's actual output are judged by the differential oracle only",
           "Python's str.isspace set is the one listed in Model/Normalize.lean"]
WS = [" ", " ", "  ", "\t", "\n", "\r", "\xa0", "\xa0\xa0", " \xa0", "\x0b", "\x0c", "\x1c", "\x85", " ", "　", "​"]
WORDS = ["a", "bc", "Hello", "wörld", "x.y", "<tag>", "&amp;", "\U0001F600", "1", "-", "m⁻²", "ﬁeld", "µmol", "…", "½", "Ａ", "´", "e\u0301"]
PROTECTED = ["markup", "literalLayout", "objectName", "attributeName", "para"]
XSI = "http://www.w3.org/2001/XMLSchema-instance"


def rand_text(rng, n=None):
    n = rng.randint(0, 8) if n is None else n
    out = []
    for _ in range(n):
        out.append(rng.choice(WS) if rng.random() < 0.55 else rng.choice(WORDS))
    return "".join(out)


def judge_text(s):
    try:
        r = normalize(s)
    except Exception as e:
        return None, f"normalize raised {type(e).__name__}"
    if normalize(r) != r:
        return r, "not idempotent"
    if r.split() != s.replace("\xa0", " ").split():
        return r, f"words changed: {r.split()} vs {s.replace(chr(0xa0), ' ').split()}"
    if "\xa0" in r:
        return r, "non-breaking space in the result"
    if r[:1] == " " or r[-1:] == " ":
        return r, "leading or trailing space in the result"
    if "  " in r:
        return r, "run of spaces in the result"
    return r, None


def xns(s):
    """XPath normalize-space: only #x20 #x9 #xD #xA are white space"""
    out, cur = [], []
    for ch in s:
        if ch in " \t\r\n":
            if cur:
                out.append("".join(cur)); cur = []
        else:
            cur.append(ch)
    if cur:
        out.append("".join(cur))
    return " ".join(out)


def gen_elem(rng, depth, prot=False):
    name = rng.choice(PROTECTED + ["title", "section", "emphasis", "keyword", "value", "a", "données", "título"])
    attrs = []
    for k in rng.sample(["id", "scope", "lang", "xsi:type", "xsi:nil", "system", "größe"], rng.randint(0, 3)):
        attrs.append((k, rand_text(rng, rng.randint(0, 4)).replace("\r", " ").replace("\x0b", "").replace("\x0c", "").replace("\x1c", "")))
    kids = []
    if depth < 3:
        for _ in range(rng.randint(0, 3)):
            kids.append(gen_elem(rng, depth + 1))
    chunks = [rand_text(rng) if rng.random() < 0.7 else "" for _ in range(len(kids) + 1)]
    s = "<" + name + "".join(f" {k}={quoteattr(v)}" for k, v in attrs)
    if depth == 0:
        s += f' xmlns:xsi="{XSI}"'
    def text(c):
        c = c.replace("\x0b", "").replace("\x0c", "").replace("\x1c", "")
        # the same characters written as a CDATA section (no references are interpreted inside one) or escaped
        if c and "]]>" not in c and rng.random() < 0.2:
            return "<![CDATA[" + c + "]]>"
        if len(c) >= 3 and "]]>" not in c and rng.random() < 0.2:
            # a CDATA section in the middle of character data: one text for the data model, however it was written
            i = rng.randrange(1, len(c) - 1); j = rng.randrange(i + 1, len(c) + 1)
            return escape(c[:i]) + "<![CDATA[" + c[i:j] + "]]>" + escape(c[j:])
        return escape(c)
    s += ">" + text(chunks[0])
    for k, c in zip(kids, chunks[1:]):
        s += k + text(c)
    return s + f"</{name}>"


def xd_of(e):
    """lxml element -> the node tree of Model/XNorm.lean (adjacent text is already merged by the parser)"""
    if not isinstance(e.tag, str):
        return ["o", etree.tostring(e, with_tail=False).decode()]
    kids = []
    if e.text:
        kids.append(["t", e.text])
    for c in e:
        kids.append(xd_of(c))
        if c.tail:
            kids.append(["t", c.tail])
    return ["e", e.tag, [[k, v] for k, v in e.attrib.items()], kids]


def result_tree(doc):
    """libxslt's result tree (before serialisation) for the stylesheet the source holds now"""
    xslt = etree.XSLT(etree.XML(normmod.normalize_whitespace))
    return xd_of(xslt(etree.XML(doc.replace("\xa0", " ").encode("utf-8"))).getroot())


def chunks_of(e):
    return [e.text] + [c.tail for c in e if isinstance(c.tag, str)]


def judge_xml(doc):
    try:
        out = normalize(doc, is_xml=True)
    except Exception as e:
        return f"normalize(is_xml=True) raised {type(e).__name__}: {e}"
    try:
        o = etree.fromstring(out.encode("utf-8"))
    except Exception as e:
        return f"output is not well-formed: {e}"
    i = etree.fromstring(doc.replace("\xa0", " ").encode("utf-8"))
    def cmp(a, b, prot):
        if a.tag != b.tag:
            return f"element {a.tag} became {b.tag}"
        if list(a.attrib.keys()) != list(b.attrib.keys()):
            return f"attribute names/order of {a.tag}: {list(a.attrib.keys())} -> {list(b.attrib.keys())}"
        for k in a.attrib:
            if b.attrib[k] != xns(a.attrib[k]):
                return f"attribute {k} of {a.tag}: {a.attrib[k]!r} -> {b.attrib[k]!r}, expected {xns(a.attrib[k])!r}"
        ka = [c for c in a if isinstance(c.tag, str)]; kb = [c for c in b if isinstance(c.tag, str)]
        if len(ka) != len(kb):
            return f"{a.tag}: {len(ka)} child elements became {len(kb)}"
        p = prot or a.tag in PROTECTED
        for x, y in zip(chunks_of(a), chunks_of(b)):
            x = x or ""
            y = y or ""
            if p:
                exp = x
            else:
                exp = xns(x)
            if exp == "" or (p and exp.strip(" \t\r\n") == "" and False):
                if y.strip(" \t\r\n") != "":
                    return f"text {x!r} in {a.tag} became {y!r}"
            elif y != exp:
                return f"text {x!r} in {'protected ' if p else ''}{a.tag} became {y!r}, expected {exp!r}"
        for x, y in zip(ka, kb):
            w = cmp(x, y, p)
            if w:
                return w
        return None
    w = cmp(i, o, False)
    if w:
        return w
    try:
        if normalize(out, is_xml=True) != out:
            return "normalising the output again changes it"
    except Exception as e:
        return f"second normalisation raised {type(e).__name__}"
    return None


def run(ctx):
    rng = ctx.rng
    quick = ctx.tier == "quick"
    texts = ["", " ", "\xa0", "a", " a ", "a  b", "a\xa0\xa0b", "a\xa0\tb", "\ta\n", "a \t b", "a\t b", "a\tb", "　a　", "a  b"]
    texts += [rand_text(rng, rng.randint(0, 14)) for _ in range(3000 if quick else 60000)]
    # a string is text unless the caller says otherwise: strings that LOOK like XML (declaration, processing instruction,
    # a whole well-formed document, a truncated one) are normalised as text like any other string
    texts += ['<?xml version="1.0"?><a>b   c</a><!-- x   y -->', ' <?xml version="1.0"?>\n<a>b\xa0\xa0c</a>', "<?xml", "<?xml  not   well formed",
              '<?xml-stylesheet  href="a.xsl"?>  <a/>', "\ufeff<?xml version='1.0'?><a> b </a>", "<a>  b   c </a>", "<!DOCTYPE a>  <a/>", "<a",
              "<?XML x?>  y", "<!-- c   d -->", "<![CDATA[ a   b ]]>", "&lt;?xml  a"]
    for _ in range(150 if quick else 1500):
        d = gen_elem(rng, 0)
        texts.append(rng.choice(["", '<?xml version="1.0"?>', '<?xml version="1.0" encoding="UTF-8"?>\n', " <?xml version='1.0'?>  ", "\n"]) + d)
        texts.append(d[: rng.randint(0, len(d))])
    fails, diffs, samples = [], [], []
    res = []
    for s in texts:
        r, w = judge_text(s)
        res.append(r)
        if w:
            fails.append({"case": {"text": s}, "what": f"normalize({s!r}) = {r!r}: {w}"})
    if ctx.driver:
        outs = ctx.driver.batch([{"op": "normalize", "s": s} for s in texts])
        for s, r, m in zip(texts, res, outs):
            if r != m:
                diffs.append({"case": {"text": s}, "impl": r, "model": m})
    nx = 400 if quick else 6000
    xdocs = []
    for _ in range(nx):
        d = gen_elem(rng, 0)
        dtd = ""
        if rng.random() < 0.1:
            # an internal DTD subset declaring general entities that the text uses: their replacement text is text like any other
            import re as _re
            m_ = _re.match(r"<([^\s>/]+)", d)
            j_ = d.index(">")
            d = d[:j_ + 1] + rng.choice(["&org; ", " by &org;2020 ", "&unit;"]) + d[j_ + 1:]
            dtd = f'<!DOCTYPE {m_.group(1)} [<!ENTITY org "ACME  Corp"><!ENTITY unit "m\xa0s">]>\n'
        # a well-formed document may start with an XML declaration (with or without an encoding) and a comment
        d = rng.choice(["", "", "", '<?xml version="1.0"?>', '<?xml version="1.0" encoding="UTF-8"?>\n', "<?xml version='1.0' encoding='utf-8' standalone='yes'?>",
                        "<!-- header -->\n"]) + dtd + d
        xdocs.append(d)
        w = judge_xml(d)
        if w:
            fails.append({"case": {"xml": d}, "what": w})
    # the Lean model of the stylesheet (Model/XNorm.lean, protected list regenerated from the source) against libxslt's result tree
    if ctx.driver:
        reqs, exps = [], []
        for d in xdocs:
            try:
                exps.append(result_tree(d))
                reqs.append({"op": "xnorm", "doc": xd_of(etree.fromstring(d.encode("utf-8")))})
            except Exception as e:
                exps.append(None); reqs.append({"op": "xnorm", "doc": ["o", "unparsable"]})
        # a second stream with comments and processing instructions inside (copied verbatim by the identity template): model only
        cdocs = []
        for _ in range(nx // 4):
            d = gen_elem(rng, 0)
            for _ in range(rng.randint(1, 3)):
                cut = [i for i, ch in enumerate(d) if ch == "<" and i > 0 and d[i + 1] != "/"]
                if cut:
                    i = rng.choice(cut)
                    d = d[:i] + rng.choice(["<!-- a  comment -->", "<?pi  some   data?>", "<!----> "]) + d[i:]
            try:
                exps.append(result_tree(d)); reqs.append({"op": "xnorm", "doc": xd_of(etree.fromstring(d.encode("utf-8")))}); cdocs.append(d)
            except Exception:
                pass
        for d, e, m in zip(xdocs + cdocs, exps, ctx.driver.batch(reqs)):
            if e is not None and e != m:
                diffs.append({"case": {"xml": d}, "impl": str(e)[:400], "model": str(m)[:400]})
    for s in texts[14:17]:
        samples.append({"text": s, "normalized": normalize(s)})
    samples.append({"xml": xdocs[0][:400]})
    nontriv = len({s for s in texts if any(c in s for c in "\xa0\t\n") and len(s.split()) >= 2})
    return {"evaluations": len(texts) + nx, "distinct_nontrivial": nontriv,
            "rule": "texts: concatenations of up to 14 tokens drawn from words and white-space kinds (space, runs, tab, LF, CR, NBSP, VT, FF, FS, NEL, EM SPACE, IDEOGRAPHIC SPACE, ZWSP) plus fixed corner cases; "
                    "non-trivial = at least two words and an NBSP/tab/newline, counted distinct. XML: random documents over protected and unprotected elements with unprefixed and xsi: attributes, "
                    "mixed content and NBSP, judged against an independent parse",
            "samples": samples, "corr_diffs": diffs, "oracle_fails": fails,
            "distribution": {"texts": len(texts), "xml_documents": nx}}


def replay(payload, drv):
    c = payload.get("case") or {}
    if "text" in c:
        r, w = judge_text(c["text"])
        out = {"normalize": r, "verdict": w}
        if drv:
            out["model"] = drv.batch([{"op": "normalize", "s": c["text"]}])[0]
        return out
    if "xml" in c:
        out = {"verdict": judge_xml(c["xml"])}
        if drv:
            try:
                out["libxslt_result_tree"] = result_tree(c["xml"])
                out["model"] = drv.batch([{"op": "xnorm", "doc": xd_of(etree.fromstring(c["xml"].encode("utf-8")))}])[0]
            except Exception as e:
                out["model"] = f"{type(e).__name__}: {e}"
        return out
    return {"case": c}


def replay_finding(f):
    return None
