"""C06 - JSON save/load reproduces the tree exactly."""
import ast, copy, json, os
import impl, gen
from metapype.model.node import Node
from metapype.model import metapype_io, mp_io

TRUSTED = ["json.dumps / json.loads are mutually inverse on str/None/list/dict with insertion order kept (the text level is exercised here, not modelled)",
           "utils/convert.to_20210209 is executed from its source text (the module itself is not imported: importing it opens a log file)"]


def load_converter():
    path = os.path.join(os.environ.get("METAPYPE_REPO", "/repo"), "utils", "convert.py")
    tree = ast.parse(open(path).read())
    for n in tree.body:
        if isinstance(n, ast.FunctionDef) and n.name == "to_20210209":
            ns = {}
            exec(compile(ast.Module([n], []), path, "exec"), ns)
            return ns["to_20210209"]
    raise RuntimeError("to_20210209 not found")


def shuffled(rng, items):
    """the hypothesis is about WHICH prefixes a map has, not their order: an own prefix may precede an inherited one (lxml lists nested
    declarations that way)"""
    if rng.random() < 0.5:
        rng.shuffle(items)
    return items


def rand_closed_tree(rng, pns=(), depth=0, maxdepth=3):
    ns = dict(pns)
    for _ in range(rng.choice([0, 0, 1, 2])):
        # prefixes are arbitrary names: also ones that look like JSON / Python literals
        ns[rng.choice(["eml", "stmml", "xsi", "p", "q", "xml", "null", "None", "true", "nil", "n0"])] = rng.choice(["u1", "u2", "http://x/y", gen.rand_text(rng, 4)])
    def d():
        out = {}
        for _ in range(rng.choice([0, 0, 1, 2, 3])):
            # keys are arbitrary JSON strings: also Clark notation with a namespace name this node binds (or the XML namespace)
            clark = "{" + rng.choice(list(ns.values()) + ["http://www.w3.org/XML/1998/namespace", "urn:unbound"]) + "}" + rng.choice(["id", "lang", "k"])
            # ... and ones that look like namespace declarations: in the attributes / extras slot they are attributes / extras
            out[rng.choice(["id", "k", "xml:lang", "xsi:type", clark, gen.rand_text(rng, 2) or "z", "xmlns:stmml", "xmlns", "xmlns:p"])] = gen.rand_text(rng, 6)
        return list(out.items())
    kids = [rand_closed_tree(rng, ns.items(), depth + 1, maxdepth) for _ in range(rng.randint(0, 3) if depth < maxdepth else 0)]
    return impl.T(rng.choice(["a", "title", "para", "é", "x-y", gen.rand_text(rng, 3) or "n"]), rng.choice([None, "", gen.rand_text(rng, 10)]), kids, d(),
                  tail=rng.choice([None, None, "", "\n  ", gen.rand_text(rng, 4)]), prefix=rng.choice([None, None] + list(ns.keys()) + (["zzUnbound", "xml", ""] if rng.random() < 0.2 else [])),   # a prefix is a field like any other: it need not be bound by the node's own map
                  extras=d(), nsmap=shuffled(rng, list(ns.items())))


def walk(n):
    yield n
    for c in n.children:
        yield from walk(c)


def project5(t):
    return [t[0], t[1], t[2], None, None, t[5], [], [], [project5(k) for k in t[8]]]


def run(ctx):
    rng = ctx.rng
    conv = load_converter()
    N = 400 if ctx.tier == "quick" else 6000
    fails, diffs, samples, reqs, metas = [], [], [], [], []
    dist = {"closed": 0, "not_closed": 0, "nodes": 0}
    for i in range(N):
        t = rand_closed_tree(rng, maxdepth=rng.choice([0, 1, 2, 3]))
        closed = True
        if rng.random() < 0.2:
            # second stream: break the hypothesis on purpose (a child lacking a prefix of its parent): no oracle, model must predict the merge
            nodes = [x for _, x in gen.nodes_of(t) if x[7]]
            if nodes:
                x = rng.choice(nodes); x[7].pop(rng.randrange(len(x[7]))); closed = False
        dup_ids = set()
        if rng.random() < 0.12:
            # ids are caller-supplied strings and need not be unique: two siblings (or any two nodes) may carry the same one
            withkids = [x for _, x in gen.nodes_of(t) if len(x[8]) >= 2]
            if withkids:
                par = rng.choice(withkids)
                a, b = rng.sample(par[8], 2)
                a[0] = b[0] = f"same-{rng.randrange(1000)}"
                dup_ids.add(a[0])
        if rng.random() < 0.1:
            # an id is any string the caller chose, the empty string included
            rng.choice([x for _, x in gen.nodes_of(t)])[0] = ""
            dup_ids.add("")
        impl.reset()
        root = impl.build(t)
        orig = impl.snapshot(root)
        dist["closed" if closed else "not_closed"] += 1
        dist["nodes"] += sum(1 for _ in walk(root))
        case = {"tree": orig}
        res = {}
        try:
            text = metapype_io.to_json(root)
            impl.reset()
            back = metapype_io.from_json(text)
            res["current"] = impl.snapshot(back)
            text2 = metapype_io.to_json(back)
            if rng.random() < 0.3:
                # loading is a function of the text: edit the first result, load the same text again
                for nd in walk(back):
                    nd.content = (nd.content or "") + "!edited"
                    nd.add_attribute("zzEdited", "1")
                impl.reset()
                back = metapype_io.from_json(text)
                res["current"] = impl.snapshot(back)
                text2 = metapype_io.to_json(back)
            if closed:
                if res["current"] != orig:
                    fails.append({"case": case, "what": "from_json(to_json(tree)) differs from the tree"})
                elif text2 != text:
                    fails.append({"case": case, "what": "re-serialising the loaded tree gives a different JSON text"})
                else:
                    for n in walk(back):
                        if any(c.parent is not n for c in n.children):
                            fails.append({"case": case, "what": "a parent link is not set after loading"}); break
                        if n.id not in dup_ids and Node.get_node_instance(n.id) is not n:
                            fails.append({"case": case, "what": "a loaded node is not registered under its id"}); break
            if impl.snapshot(root) != orig:
                fails.append({"case": case, "what": "to_json changed the tree"})
            if closed and rng.random() < 0.25:
                # the text is the contract: a document whose ids were written by someone else (the empty string, "0", "None",
                # "null" are strings like any other) loads and re-serialises to the same document
                doc_ = json.loads(text)
                def ids_of(d, acc):
                    for nm, body in d.items():
                        for f in body:
                            if "id" in f:
                                acc.append(f)
                            if "children" in f:
                                for k in f["children"]:
                                    ids_of(k, acc)
                    return acc
                slots = ids_of(doc_, [])
                for f, v in zip(rng.sample(slots, min(len(slots), 3)), ["", "0", rng.choice(["None", "null", "False"])]):
                    f["id"] = v
                impl.reset()
                eback = metapype_io.from_json(json.dumps(doc_))
                if json.loads(metapype_io.to_json(eback)) != doc_:
                    fails.append({"case": {"tree": orig, "ids_in_document": [f["id"] for f in slots][:6]},
                                  "what": "a JSON document with caller-chosen ids (\"\", \"0\", \"None\", ...) does not load and re-serialise to the same document"})
            # "any tree": also a subtree of a larger document, serialised on its own (its root has a parent and, possibly, a tail)
            inner = [n for n in walk(root) if n.parent is not None]
            if closed and inner and rng.random() < 0.4:
                sub_ = rng.choice(inner)
                want = impl.snapshot(sub_)
                stext = metapype_io.to_json(sub_)
                impl.reset()
                sback = metapype_io.from_json(stext)
                if impl.snapshot(sback) != want:
                    fails.append({"case": {"tree": orig, "subtree_root": sub_.name}, "what": f"from_json(to_json(subtree)) differs from the subtree (a node with a parent, serialised on its own)"})
                elif metapype_io.to_json(sback) != stext:
                    fails.append({"case": {"tree": orig, "subtree_root": sub_.name}, "what": "re-serialising a loaded subtree gives a different JSON text"})
            # legacy codec and converter
            ltext = mp_io.to_json(root)
            impl.reset()
            lback = mp_io.from_json(json.loads(ltext))
            res["legacy"] = impl.snapshot(lback)
            if res["legacy"] != project5(orig):
                fails.append({"case": case, "what": "legacy round trip does not reproduce id, name, attributes, content, children"})
            doc = json.loads(ltext)
            conv(doc)
            impl.reset()
            uback = metapype_io.from_json(json.dumps(doc))
            res["upgraded"] = impl.snapshot(uback)
            if res["upgraded"] != project5(orig):
                fails.append({"case": case, "what": "upgraded legacy document does not load as the same tree with empty namespace data"})
        except Exception as e:
            fails.append({"case": case, "what": f"codec raised {type(e).__name__}: {e}"})
            continue
        reqs.append({"op": "json", "tree": orig}); metas.append((case, res))
        if len(samples) < 2 and 2 <= len(json.dumps(orig)) < 700 and orig[8]:
            samples.append({"tree": orig, "json_text": text[:300]})
    if ctx.driver:
        outs = ctx.driver.batch(reqs)
        for (case, res), m in zip(metas, outs):
            for k in ("current", "legacy", "upgraded"):
                if m.get(k) != res.get(k):
                    diffs.append({"case": case, "impl": f"{k} differs", "model": k}); break
    return {"evaluations": N, "distinct_nontrivial": N,
            "rule": "random trees of depth 0-3 whose namespace maps include their parent's (re-declared URIs allowed), arbitrary Unicode (all planes, controls, quotes, backslashes) in names, "
                    "content, tail, attribute/extras/namespace values; 20% with the hypothesis deliberately broken (no oracle, the model must predict add_child's merge); current codec, legacy codec, converter",
            "samples": samples, "corr_diffs": diffs, "oracle_fails": fails, "distribution": dist}


def replay(payload, drv):
    c = payload.get("case") or {}
    if "tree" not in c:
        return {"case": c}
    impl.reset()
    root = impl.build(copy.deepcopy(c["tree"]))
    text = metapype_io.to_json(root)
    impl.reset()
    back = metapype_io.from_json(text)
    return {"equal": impl.snapshot(back) == c["tree"], "loaded": impl.snapshot(back)}


def replay_finding(f):
    return None
