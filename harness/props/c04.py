"""C04 - validation is total: only rule errors escape, collecting mode never raises."""
import copy
import impl, gen, treeval
from metapype.model.node import Node
from metapype.eml import validate

TRUSTED = ["trees deeper than the interpreter's recursion limit are outside the claim",
           "str values with lone surrogates and non-str attribute values are outside the Lean model (implementation-side oracle only)"]

NASTY = [None, "", " ", "abc", "nan", "NaN", "inf", "-inf", "1e999", "-0", "181", "-181", "90.0000001", "12", "1.5", "1_0", " 1 ", "٣",
         "12:00:00", "25:00:00", "12:00", "2020", "0000", "2021-02-29", "2020-1-1", "http://a", "http://", "ftp://a/b c", "//a/b",
         "HTTP://A", "http://[::1", "http://a:99999999999/", "mailto:x", "\x00", "\U0001F600", "a\nb", "]]>", "&lt;",
         "²²²²", "202①", "½", "٢٠٢٠", "１２", "१२३४", "2020²", "1²", "12:00:0²", "1e²"]      # str.isdigit() is true for many non-decimal digits


def random_tree(rng, names, depth, maxdepth, width):
    name = rng.choice(names)
    content = rng.choice(NASTY) if rng.random() < 0.5 else gen.rand_text(rng)
    attrs = {}
    for _ in range(rng.choice([0, 0, 1, 2, 3])):
        attrs[rng.choice(["id", "scope", "system", "lang", "directory", "zz", "packageId", "function", "name", "phonetype"])] = \
            rng.choice(["document", "system", "x", "", "true", gen.rand_text(rng, 3)])
    kids = []
    if depth < maxdepth:
        for _ in range(rng.randint(0, width)):
            kids.append(random_tree(rng, names, depth + 1, maxdepth, width))
    return impl.T(name, content, kids, list(attrs.items()))


def deep_chain(rng, names, depth):
    t = impl.T(rng.choice(names), rng.choice(NASTY))
    for _ in range(depth - 1):
        t = impl.T(rng.choice(names), rng.choice(NASTY), [t] + ([impl.T(rng.choice(names))] if rng.random() < 0.3 else []))
    return t


def make_cases(ctx, ri, tg):
    rng = ctx.rng
    known = list(ri.mappings.keys())
    mixed_names = known + ["zzUnknown", "Dataset", "", "a b", "é"]
    quick = ctx.tier == "quick"
    # 1. single nodes: every element x every nasty content (exercises every typed check in both modes)
    for e in known:
        rn = ri.mappings[e]
        for c in (NASTY if not quick else NASTY[::2] + NASTY[1::7]):
            yield "single", impl.T(e, c, [impl.T(k) for k in ri.valid_kids(rn)][:3], ri.valid_attrs(rn))
    # 1b. single nodes with otherwise valid content/attributes whose children are a permuted word of the rule's language
    import lang
    for e in known:
        rn = ri.mappings[e]
        sp = ri.spec.get(rn)
        if sp is None:
            continue
        for _ in range(2 if quick else 8):
            w = lang.sample_word(sp, rng, rep=2) or []
            if len(w) < 2:
                continue
            w2 = list(w)
            if rng.random() < 0.5:
                j = rng.randrange(len(w2) - 1); w2[j], w2[j + 1] = w2[j + 1], w2[j]
            else:
                rng.shuffle(w2)
            yield "permuted", impl.T(e, ri.valid_content(rn, rng), [impl.T(k) for k in w2], ri.valid_attrs(rn))
    # 2. mutated valid trees
    roots = ["eml", "dataset", "dataTable", "creator", "attribute", "methods", "project", "coverage", "otherEntity", "access", "physical"]
    for i in range(150 if quick else 2500):
        t = tg.valid_tree(rng.choice(roots), rng, maxdepth=rng.choice([2, 3, 4]), rep=rng.choice([1, 2]))
        gen.mutate(t, rng, tg, rng.choice([0, 1, 2, 3, 5, 8]))
        yield "mutated", t
    # 3. random trees over known and unknown names
    for i in range(150 if quick else 2500):
        yield "random", random_tree(rng, mixed_names, 0, rng.choice([1, 2, 3]), rng.choice([2, 3, 5]))
    # 4. deep chains
    for d in ([100] if quick else [100, 100, 60, 99]):
        yield "deep", deep_chain(rng, mixed_names, d)


def malformed_stream(ctx, ri):
    """inputs the Lean model cannot represent: judged by the implementation-side oracle only"""
    rng = ctx.rng
    known = list(ri.mappings.keys())
    out = []
    for e in known:
        for c in ["\ud800", "a\udfffb", "http://a/\ud800"]:
            n = Node(e); impl.set_content(n, c)
            out.append((f"{e} content {c!r}", n))
        n = Node(e); n.attributes["id"] = 5; n.attributes[7] = "x"
        out.append((f"{e} non-str attribute key/value", n))
    return out


def judge(v, root_known=True):
    if v["ff"].startswith("crash"):
        return f"fail-fast validation raised {v['ff'][6:]} (outside the rule-error family)"
    if v["crash"]:
        return f"collecting mode raised {v['crash'][7:]}"
    for e in v["coll"]:
        if e[0] in ("malformed", "node-not-in-tree") or e[0] == "malformed":
            return f"errs entry is not (code, message, node of the tree, ...): {e}"
    if (v["ff"] == "ok") != (not v["coll"]):
        return f"fail-fast {'succeeds' if v['ff'] == 'ok' else 'fails'} but the collected list has {len(v['coll'])} entries"
    return None


def run(ctx):
    ri = gen.RuleInfo(); tg = gen.TreeGen(ri)
    cases, reqs, views = [], [], []
    for kind, t in make_cases(ctx, ri, tg):
        impl.reset()
        root = impl.build(t)
        cases.append((kind, t))
        views.append(treeval.tree_views(root))
        reqs.append({"op": "tree", "tree": t})
    outs = ctx.driver.batch(reqs) if ctx.driver else [None] * len(reqs)
    diffs, fails, samples = [], [], []
    dist = {"by_stream": {}, "codes": {}, "ff_families": {}, "ok": 0, "max_depth": 0}
    unspec = drift = 0
    distinct = set()
    for (kind, t), v, m in zip(cases, views, outs):
        case = {"tree": t}
        dist["by_stream"][kind] = dist["by_stream"].get(kind, 0) + 1
        for e in v["coll"]:
            dist["codes"][str(e[1])] = dist["codes"].get(str(e[1]), 0) + 1
        dist["ff_families"][v["ff"]] = dist["ff_families"].get(v["ff"], 0) + 1
        if v["ff"] == "ok":
            dist["ok"] += 1
        else:
            distinct.add(impl.json.dumps(t))
        what = judge(v)
        if what:
            fails.append({"case": case if len(impl.json.dumps(t)) < 20000 else {"tree_summary": kind}, "what": f"[{kind}] {what}"})
        if m is not None:
            if m.get("unspec"):
                unspec += 1
                continue
            mv = treeval.model_view(m)
            iview = (impl.coarse(v["ff"]), bool(v["coll"]), v["crash"] is not None)
            mview = (impl.coarse(mv["ff"]), bool(mv["coll"]), mv["crash"] is not None)
            if iview != mview:
                diffs.append({"case": case, "impl": {"ff": v["ff"], "coll": v["coll"][:8], "crash": v["crash"]},
                              "model": {"ff": mv["ff"], "coll": mv["coll"][:8], "crash": mv["crash"]}})
            elif [(e[0], e[1]) for e in v["coll"]] != [(e[0], e[1]) for e in mv["coll"]]:
                drift += 1
        if len(samples) < 5 and kind in ("mutated", "random") and v["coll"] and len(impl.json.dumps(t)) < 1500:
            samples.append({"stream": kind, "tree": t, "ff": v["ff"], "collected": v["coll"][:6]})
    # malformed stream
    nmal = 0
    for desc, n in malformed_stream(ctx, ri):
        nmal += 1
        v = treeval.tree_views(n)
        what = judge(v)
        if what:
            fails.append({"case": {"malformed": desc}, "what": f"[malformed] {desc}: {what}"})
    dist["by_stream"]["malformed(oracle only)"] = nmal
    return {"evaluations": len(cases) + nmal, "distinct_nontrivial": len(distinct),
            "rule": "streams: every known element x nasty content values (single nodes); rule-guided valid trees with 0-8 adversarial mutations; "
                    "random trees over known+unknown names with arbitrary Unicode content/attributes; chains of depth 100; a malformed stream "
                    "(lone surrogates, non-str attribute keys/values) judged by the oracle only. non-trivial = tree with at least one reported problem; distinct by tree term",
            "samples": samples, "corr_diffs": diffs, "oracle_fails": fails, "distribution": dist, "unspec": unspec, "drift": drift}


def replay(payload, drv):
    c = payload.get("case") or {}
    if "tree" not in c:
        return {"note": "nothing to replay", "case": c}
    impl.reset()
    v = treeval.tree_views(impl.build(c["tree"]))
    out = {"implementation": v, "verdict": judge(v)}
    if drv:
        out["model"] = drv.batch([{"op": "tree", "tree": c["tree"]}])[0]
    return out


def replay_finding(f):
    return None
