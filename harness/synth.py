"""Synthetic rules: random children specs of the class `wfTop` (the class the C01 / C17 theorems quantify over),
installed in the live rule table under a REUSED rule name, so that the tie between model and code is exercised on
specs other than the 107 shipped ones ("whatever the table holds when the check runs").

Used by props/c01.py (acceptance = language membership, error family, both modes) and props/c17.py (insertion index).
"""
import contextlib, itertools
import impl, lang
from metapype.model.node import Node
from metapype.eml import rule as rulemod
from metapype.eml.exceptions import ChildNotAllowedError

SYNTH = "zzSynthRule"
FOREIGN = "zzForeign"


class Names:
    def __init__(self):
        self.i = 0

    def fresh(self):
        self.i += 1
        return f"e{self.i}"


def leaf_item(rng, nm):
    mn = rng.choice([0, 0, 1, 1, 2])
    mx = rng.choice([None, None, mn, mn + 1, max(mn, 1), 3])
    if mx is not None and mx < mn:
        mx = mn
    return [nm.fresh(), mn, mx]


def leaf_alt(rng, nm, low):
    """a rule child that is a direct alternative of a choice: max != 0, min <= max; `low`: min <= 1 (repeating choice)"""
    mn = rng.choice([0, 1, 1]) if low else rng.choice([0, 1, 1, 2])
    mx = rng.choice([None, None, max(mn, 1), max(mn, 1) + 1])
    return [nm.fresh(), mn, mx]


def choice_item(rng, nm, depth):
    mn = rng.choice([0, 1])
    if rng.random() < 0.5:
        alts = [leaf_alt(rng, nm, True) for _ in range(rng.choice([1, 2, 3]))]
        return alts + [mn, None]
    alts = []
    for _ in range(rng.choice([1, 2, 3])):
        if depth < 2 and rng.random() < 0.4:
            alts.append(items(rng, nm, depth + 1, rng.choice([1, 2, 3])))
        else:
            alts.append(leaf_alt(rng, nm, False))
    return alts + [mn, 1]


def items(rng, nm, depth, n):
    out = []
    for _ in range(n):
        out.append(choice_item(rng, nm, depth) if rng.random() < 0.35 else leaf_item(rng, nm))
    return out


def gen_spec(rng):
    """children section in the rules.json shape; a sequence of items, or a single choice"""
    nm = Names()
    if rng.random() < 0.2:
        return choice_item(rng, nm, 0)
    sp = items(rng, nm, 0, rng.choice([1, 2, 3, 4]))
    if not isinstance(sp[-1], list):      # cannot happen (every item is a list) - kept as a guard for the sequence shape
        raise AssertionError
    return sp


@contextlib.contextmanager
def installed(spec_json, rule_name):
    """the rule table with `rule_name` bound to a synthetic entry; the former entry (if any) is put back afterwards"""
    table = rulemod.rules_dict
    had = rule_name in table
    old = table.get(rule_name)
    table[rule_name] = [{}, spec_json, {"content_rules": []}]
    try:
        yield
    finally:
        if had:
            table[rule_name] = old
        else:
            del table[rule_name]


def sequences(s, rng, quick):
    alpha = list(dict.fromkeys(lang.names(s))) + [FOREIGN]
    a = len(alpha)
    L = (4 if a <= 4 else 3 if a <= 7 else 2) if quick else (5 if a <= 4 else 4 if a <= 7 else 3)
    seen = set()
    for n in range(0, L + 1):
        for w in itertools.product(alpha, repeat=n):
            seen.add(w); yield list(w)
    for _ in range(8 if quick else 40):
        w = lang.sample_word(s, rng, rep=rng.choice([1, 2, 4]))
        if w is None:
            continue
        cands = [w]
        if w:
            i = rng.randrange(len(w))
            cands += [w[:i] + w[i + 1:], w[:i] + [w[i]] + w[i:], w[:i] + [rng.choice(alpha)] + w[i + 1:], w[::-1]]
        for c in cands:
            if tuple(c) not in seen and len(c) <= 40:
                seen.add(tuple(c)); yield c


def validate_both(rule_name, kids, node_name="zzSynthNode"):
    impl.reset()
    n = Node(node_name)
    for kn in kids:
        c = Node(kn); n.children.append(c); c.parent = n
    r = rulemod.Rule(rule_name)
    ff = impl.run_ff(r.validate_rule, n)
    r = rulemod.Rule(rule_name)
    codes, crash, _ = impl.run_collect(r.validate_rule, n)
    return {"ff": ff, "codes": codes, "crash": crash, "name": node_name}


def suggest(rule_name, kids, cand, node_name="zzSynthNode"):
    impl.reset()
    p = Node(node_name)
    for k in kids:
        c = Node(k); p.children.append(c); c.parent = p
    r = rulemod.Rule(rule_name)
    try:
        idx = r.child_insert_index(p, Node(cand))
    except ChildNotAllowedError:
        idx = "ChildNotAllowedError"
    except Exception as e:
        idx = "crash:" + type(e).__name__
    try:
        allowed = rulemod.Rule(rule_name).is_allowed_child(cand)
    except Exception as e:
        allowed = "crash:" + type(e).__name__
    return idx, allowed


def mixed_rule_names(ri):
    return sorted(ri.mixed)
