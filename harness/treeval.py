"""shared by C04/C05/C10: run whole-tree validation of the real code and canonicalise"""
import impl
from metapype.eml import validate
from metapype.eml.validation_errors import ValidationError
from metapype.model.node import Node


def paths(n, path=(), out=None):
    out = {} if out is None else out
    out[id(n)] = path
    for i, c in enumerate(n.children):
        paths(c, path + (i,), out)
    return out


def visible(n, path=()):
    """document-order walk that does not descend below a node named metadata"""
    yield path, n
    if n.name != "metadata":
        for i, c in enumerate(n.children):
            yield from visible(c, path + (i,))


def entry_view(e, pmap):
    """(path, code) of an errs entry; malformed entries are described"""
    try:
        ok = isinstance(e, tuple) and isinstance(e[0], ValidationError) and isinstance(e[1], str) and isinstance(e[2], Node)
    except Exception:
        ok = False
    if not ok:
        return ("malformed", repr(e)[:60])
    p = pmap.get(id(e[2]))
    return (list(p) if p is not None else "node-not-in-tree", e[0].name)


def tree_views(root):
    pmap = paths(root)
    ff = impl.run_ff(validate.tree, root)
    errs = []
    crash = None
    try:
        impl.limited(validate.tree, root, errs)
    except BaseException as ex:
        if isinstance(ex, (KeyboardInterrupt, SystemExit)):
            raise
        crash = "raised:" + type(ex).__name__
    return {"ff": ff, "coll": [entry_view(e, pmap) for e in errs], "crash": crash}


def node_views(root):
    """per visible node, its own validate.node outcome"""
    pmap = paths(root)
    out = []
    for p, n in visible(root):
        ff = impl.run_ff(validate.node, n)
        errs = []
        crash = None
        try:
            impl.limited(validate.node, n, errs)
        except BaseException as ex:
            if isinstance(ex, (KeyboardInterrupt, SystemExit)):
                raise
            crash = "raised:" + type(ex).__name__
        out.append({"path": list(p), "ff": ff, "coll": [entry_view(e, pmap) for e in errs], "crash": crash})
    return out


def model_view(m):
    """model answer -> same shape as tree_views"""
    evs = m["evs"]
    crash = None
    coll = []
    for p, e in evs:
        if e.startswith("crash") or e == "diverge":
            crash = e
        else:
            coll.append((p, e))
    ff = "ok" if not evs else impl.model_family(evs[0][1])
    return {"ff": ff, "coll": coll, "crash": crash}
