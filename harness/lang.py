"""Declarative reading of a rule's children section (the SPEC side of C01/C17),
independent of the greedy matcher: nested sequences and choices with min/max
occurrences, decided by exploring all decompositions (position sets)."""
from functools import lru_cache


def parse(c, top=True):
    """JSON children spec -> ('leaf',name,mn,mx) | ('seq',items) | ('choice',alts,mn,mx), using the
    modality detection of rule.py:810-845"""
    if len(c) == 0:
        return ("seq", ())
    if isinstance(c[0], str):
        return ("leaf", c[0], c[1], c[2])
    if isinstance(c[-1], list):
        return ("seq", tuple(parse(x, False) for x in c))
    if len(c) >= 3 and isinstance(c[0], list) and isinstance(c[-2], int):
        return ("choice", tuple(parse(x, False) for x in c[:-2]), c[-2], c[-1])
    raise ValueError(f"Unknown modality for {c}")


def names(s):
    if s[0] == "leaf":
        return [s[1]]
    out = []
    for x in s[1]:
        out += names(x)
    return out


def ends(s, w, i, strict, mixed):
    """set of j such that w[i:j] is in the language of s"""
    memo = {}

    def go(s, i):
        key = (id(s), i)
        if key in memo:
            return memo[key]
        if s[0] == "leaf":
            _, n, mn, mx = s
            k = 0
            while i + k < len(w) and w[i + k] == n:
                k += 1
            res = {i + j for j in range(mn, k + 1) if mx is None or j <= mx}
        elif s[0] == "seq":
            cur = {i}
            for it in s[1]:
                nxt = set()
                for p in cur:
                    nxt |= go(it, p)
                cur = nxt
            res = cur
        else:
            _, alts, mn, mx = s
            cap = (mx + 1) if mx is not None else max(mn, 1)
            # reach[p] = set of occurrence counts (capped) with which position p can be reached
            reach = {i: {0}}
            frontier = [(i, 0)]
            while frontier:
                p, c = frontier.pop()
                for a in alts:
                    for q in go(a, p):
                        if strict and q == p:
                            continue
                        c2 = min(c + 1, cap)
                        if c2 not in reach.setdefault(q, set()):
                            reach[q].add(c2)
                            frontier.append((q, c2))
            res = set()
            for p, cs in reach.items():
                for c in cs:
                    if (mixed or c >= mn) and (mx is None or c <= mx):
                        res.add(p)
        memo[key] = res
        return res

    return go(s, i)


def in_lang(s, w, strict=True, mixed=False):
    w = list(w)
    return len(w) in ends(s, w, 0, strict, mixed)


def min_word(s):
    """a shortest word of the (strict, non-mixed) language, or None if empty language"""
    if s[0] == "leaf":
        _, n, mn, mx = s
        if mx is not None and mn > mx:
            return None
        return [n] * mn
    if s[0] == "seq":
        out = []
        for it in s[1]:
            w = min_word(it)
            if w is None:
                return None
            out += w
        return out
    _, alts, mn, mx = s
    if mn == 0:
        return []
    best = None
    for a in alts:
        w = min_word(a)
        if w is None:
            continue
        if len(w) == 0:
            w = nonempty_word(a)
            if w is None:
                continue
        if best is None or len(w) < len(best):
            best = w
    if best is None or (mx is not None and mn > mx):
        return None
    return best * mn


def nonempty_word(s):
    if s[0] == "leaf":
        _, n, mn, mx = s
        k = max(mn, 1)
        return [n] * k if (mx is None or k <= mx) else None
    if s[0] == "seq":
        base = []
        ws = [min_word(it) for it in s[1]]
        if any(w is None for w in ws):
            return None
        if any(len(w) for w in ws):
            return [x for w in ws for x in w]
        for i, it in enumerate(s[1]):
            w = nonempty_word(it)
            if w is not None:
                return w
        return None
    _, alts, mn, mx = s
    if mx == 0:
        return None
    for a in alts:
        w = nonempty_word(a)
        if w is not None:
            return w * max(mn, 1) if (mx is None or max(mn, 1) <= mx) else None
    return None


def sample_word(s, rng, rep=3):
    """a random word of the strict language (best effort; caller should verify with in_lang)"""
    if s[0] == "leaf":
        _, n, mn, mx = s
        hi = mx if mx is not None else mn + rep
        if hi < mn:
            return None
        return [n] * rng.randint(mn, hi)
    if s[0] == "seq":
        out = []
        for it in s[1]:
            w = sample_word(it, rng, rep)
            if w is None:
                return None
            out += w
        return out
    _, alts, mn, mx = s
    hi = mx if mx is not None else mn + rep
    k = rng.randint(mn, max(mn, hi))
    out = []
    for _ in range(k):
        a = rng.choice(alts)
        w = sample_word(a, rng, rep)
        if not w:
            w = nonempty_word(a)
        if w is None:
            return None
        out += w
    return out
