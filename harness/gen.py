"""Rule-guided generators (inputs come from the implementation's own tables)."""
import lang
from metapype.eml import rule as rulemod

CANON = {
    "floatContent": ["1.5", "-2", "3e2", "0.0"],
    "floatRangeContent_EW": ["-180", "180.0", "0", "12.25", "-1e1"],
    "floatRangeContent_NS": ["-90", "90.0", "0", "45.5"],
    "floatContent_Nonnegative": ["0", "0.5", "12"],
    "intContent": ["0", "42", "-7"],
    "timeContent": ["12:30:00", "00:00:00.5"],
    "uriContent": ["http://example.org/a", "https://a.b", "ftp://host.example/x/y"],
    "yearDateContent": ["2020", "1999-12-31"],
}


class RuleInfo:
    def __init__(self):
        self.rules = rulemod.rules_dict
        self.mappings = dict(rulemod.node_mappings)
        self.spec = {}
        for rn, data in self.rules.items():
            try:
                self.spec[rn] = lang.parse(data[1])
            except Exception:
                self.spec[rn] = None
        self.elems = {}
        for e, rn in self.mappings.items():
            self.elems.setdefault(rn, []).append(e)
        try:
            self.mixed = set()
            import ast, inspect
            src = inspect.getsource(rulemod.Rule.validate_rule)
            for nm in ("RULE_TEXT", "RULE_ANYNAME", "RULE_PARA", "RULE_SUBSCRIPT", "RULE_SUPERSCRIPT"):
                if nm in src:
                    self.mixed.add(getattr(rulemod, nm))
        except Exception:
            self.mixed = {"textRule", "anyNameRule", "paraRule", "subscriptRule", "superscriptRule"}

    def rule_names(self):
        return list(self.rules.keys())

    def elem_for(self, rn):
        """an element name governed by rule rn, or None (then Rule(rn).validate_rule is called directly)"""
        es = self.elems.get(rn)
        return es[0] if es else None

    def valid_content(self, rn, rng=None, nkids=0):
        content = self.rules[rn][2]
        crs = content.get("content_rules", [])
        if "content_enum" in content and content["content_enum"]:
            vals = [v for v in content["content_enum"] if isinstance(v, str)]
            return rng.choice(vals) if rng else vals[0]
        if "emptyContent" in crs:
            return None
        for cr in crs:
            if cr in CANON:
                return rng.choice(CANON[cr]) if rng else CANON[cr][0]
        if "nonEmptyContent" in crs:
            return "some text"
        return None

    def valid_attrs(self, rn, rng=None):
        out = []
        for a, spec in self.rules[rn][0].items():
            if spec[0] or (rng is not None and rng.random() < 0.3):
                out.append([a, (rng.choice(spec[1:]) if rng else spec[1]) if len(spec) > 1 else "v"])
        return out

    def valid_kids(self, rn):
        s = self.spec[rn]
        w = lang.min_word(s) if s is not None else []
        return w or []
