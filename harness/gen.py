"""Rule-guided generators (inputs come from the implementation's own tables)."""
import lang
from metapype.eml import rule as rulemod

CANON = {
    "floatContent": ["1.5", "-2", "3e2", "0.0"],
    "floatRangeContent_EW": ["-180", "180.0", "0", "12.25", "-1e1"],
    "floatRangeContent_NS": ["-90", "90.0", "0", "45.5"],
    "floatContent_Nonnegative": ["0", "0.5", "12"],
    "intContent": ["0", "42", "-7"],
    "timeContent": ["12:30:00", "00:00:00.5"],
    "uriContent": ["http://example.org/a", "https://a.b", "ftp://host.example/x/y"],
    "yearDateContent": ["2020", "1999-12-31"],
}


def _bounds_typed(s):
    ok = lambda mn, mx: isinstance(mn, int) and not isinstance(mn, bool) and (mx is None or (isinstance(mx, int) and not isinstance(mx, bool)))
    if s[0] == "leaf":
        return ok(s[2], s[3])
    if s[0] == "seq":
        return all(_bounds_typed(x) for x in s[1])
    return ok(s[2], s[3]) and all(_bounds_typed(x) for x in s[1])


class RuleInfo:
    def __init__(self):
        self.rules = rulemod.rules_dict
        self.mappings = dict(rulemod.node_mappings)
        self.spec = {}
        for rn, data in self.rules.items():
            try:
                self.spec[rn] = lang.parse(data[1])
                if not _bounds_typed(self.spec[rn]):
                    # a spec with a non-integer minimum / a maximum that is neither an integer nor None is C10's business to report;
                    # the generators of all other checks treat the rule as "nothing known" instead of tripping over the arithmetic
                    self.spec[rn] = None
            except Exception:
                self.spec[rn] = None
        # an element may be mapped to a rule name the table does not have (C10 is about exactly that): the harnesses of the other
        # properties must not trip over it - nothing is known about such a rule (no spec), and validating the element is up to the code
        for rn in self.mappings.values():
            self.spec.setdefault(rn, None)
        self.elems = {}
        for e, rn in self.mappings.items():
            self.elems.setdefault(rn, []).append(e)
        # the rules with mixed content (text interleaved with child elements), as documented for the pinned version: TextType,
        # the any-name text elements, para, subscript, superscript.  A constant of the oracle, not read from the code under test.
        self.mixed = {"textRule", "anyNameRule", "paraRule", "subscriptRule", "superscriptRule"}

    def rule_names(self):
        return list(self.rules.keys())

    def elem_for(self, rn):
        """an element name governed by rule rn, or None (then Rule(rn).validate_rule is called directly)"""
        es = self.elems.get(rn)
        return es[0] if es else None

    def valid_content(self, rn, rng=None, nkids=0):
        if rn not in self.rules:          # an element mapped to a rule the table does not have: nothing is known about it
            return None
        content = self.rules[rn][2]
        crs = content.get("content_rules", [])
        if "content_enum" in content and content["content_enum"]:
            vals = [v for v in content["content_enum"] if isinstance(v, str)]
            return rng.choice(vals) if rng else vals[0]
        if "emptyContent" in crs:
            return None
        for cr in crs:
            if cr in CANON:
                return rng.choice(CANON[cr]) if rng else CANON[cr][0]
        if "nonEmptyContent" in crs:
            return "some text"
        return None

    def valid_attrs(self, rn, rng=None):
        out = []
        if rn not in self.rules:
            return out
        for a, spec in self.rules[rn][0].items():
            if spec[0] or (rng is not None and rng.random() < 0.3):
                out.append([a, (rng.choice(spec[1:]) if rng else spec[1]) if len(spec) > 1 else "v"])
        return out

    def valid_kids(self, rn):
        s = self.spec.get(rn)
        w = lang.min_word(s) if s is not None else []
        return w or []


# ---------------------------------------------------------------------------
# trees
PALETTE = ["a", "Z", "0", " ", "\t", "\n", " ", "<", ">", "&", '"', "'", "\\", "/", ":", "-", "_", ".", "é", "ß", "中", "٠",
           "\U0001F600", "\U00010348", "\x01", "\x7f", " ", "]]>", "&amp;", "%", "{", "}"]


def rand_text(rng, maxlen=12):
    n = rng.randint(0, maxlen)
    return "".join(rng.choice(PALETTE) for _ in range(n))


from gen_pure import min_cost_word, min_cost_nonempty, INF


class TreeGen:
    def __init__(self, ri):
        self.ri = ri
        # least fixed point: cost[e] = size of the smallest valid tree rooted at e
        cost, word = {}, {}
        changed = True
        while changed:
            changed = False
            for e, rn in ri.mappings.items():
                s = ri.spec.get(rn)
                if s is None:
                    continue
                if e == "metadata":
                    c, w = 0, []
                else:
                    c, w = min_cost_word(s, cost)
                if w is not None and 1 + c < cost.get(e, INF):
                    cost[e] = 1 + c; word[e] = w; changed = True
        self.cost, self.word = cost, word

    def productive(self, e):
        return e in self.cost

    def min_tree(self, e, rng=None):
        import impl
        rn = self.ri.mappings[e]
        kids = [self.min_tree(k, rng) for k in self.word[e]]
        return impl.T(e, self.ri.valid_content(rn, rng, nkids=len(kids)), kids, self.ri.valid_attrs(rn))

    def valid_tree(self, e, rng, depth=0, maxdepth=5, rep=2):
        import impl
        rn = self.ri.mappings[e]
        s = self.ri.spec[rn]
        if depth >= maxdepth or e == "metadata":
            return self.min_tree(e, rng)
        w = None
        for _ in range(4):
            cand = lang.sample_word(s, rng, rep=rep)
            if cand is not None and all(self.productive(k) for k in cand) and lang.in_lang(s, cand, True, rn in self.ri.mixed):
                w = cand
                break
        if w is None:
            w = self.word[e]
        kids = [self.valid_tree(k, rng, depth + 1, maxdepth, rep) for k in w]
        content = self.ri.valid_content(rn, rng, nkids=len(kids))
        crs = self.ri.rules[rn][2].get("content_rules", [])
        if content == "some text" or ("anyContent" in crs and rng.random() < 0.5) or (content is None and "strContent" in crs and "emptyContent" not in crs and rng.random() < 0.5):
            t = rand_text(rng)
            content = t if (t or "nonEmptyContent" not in crs) else "x"
        return impl.T(e, content, kids, self.ri.valid_attrs(rn, rng))


def nodes_of(t, path=()):
    yield path, t
    for i, k in enumerate(t[8]):
        yield from nodes_of(k, path + (i,))


def mutate(t, rng, tg, n=1):
    """n random adversarial mutations, in place, returns list of descriptions"""
    import impl
    desc = []
    known = list(tg.ri.mappings.keys())
    for _ in range(n):
        allnodes = list(nodes_of(t))
        path, node = rng.choice(allnodes)
        op = rng.choice(["drop", "dup", "swap", "rename", "content", "attr", "graft", "unknown", "attrdrop", "typed", "ghost"])
        kids = node[8]
        if op == "drop" and kids:
            kids.pop(rng.randrange(len(kids)))
        elif op == "dup" and kids:
            import copy
            i = rng.randrange(len(kids)); c = copy.deepcopy(kids[i]); strip_ids(c); kids.insert(i, c)
        elif op == "swap" and len(kids) > 1:
            i = rng.randrange(len(kids) - 1); kids[i], kids[i + 1] = kids[i + 1], kids[i]
        elif op == "rename":
            node[1] = rng.choice(known)
        elif op == "unknown":
            node[1] = rng.choice(["zzUnknown", "Dataset", "", "título", "a b", "data", "meta", "a", "metadat", "Metadata"])
        elif op == "content":
            node[2] = rng.choice([None, "", rand_text(rng), "12", "abc", "-1", "nan", "1e999", "http://x"])
        elif op == "typed":
            node[2] = rng.choice(["181", "-90.5", "12:61:00", "2021-02-29", "ftp://", "1.5", "007", "inf", "0000"])
        elif op == "attr":
            node[5].append([rng.choice(["id", "scope", "system", "zzAttr", "lang", "xml:lang"]), rng.choice(["document", "x", "", rand_text(rng, 4)])])
            d = {}
            for k, v in node[5]:
                d[k] = v
            node[5][:] = [[k, v] for k, v in d.items()]
        elif op == "attrdrop" and node[5]:
            node[5].pop(rng.randrange(len(node[5])))
        elif op == "ghost":
            # a child its parent's rule allows although no element of that name is known (computed from the live tables)
            import lang
            cands = []
            for _, x in allnodes:
                rn = tg.ri.mappings.get(x[1]); sp = tg.ri.spec.get(rn) if rn else None
                if sp is not None:
                    for c in dict.fromkeys(lang.names(sp)):
                        if c not in tg.ri.mappings:
                            cands.append((x, c))
            if not cands:
                continue
            x, c = rng.choice(cands)
            x[8].insert(rng.randint(0, len(x[8])), impl.T(c, None, [impl.T("title", "t")] if rng.random() < 0.5 else []))
        elif op == "graft":
            e = rng.choice(known)
            if tg.productive(e):
                kids.insert(rng.randint(0, len(kids)), tg.min_tree(e, rng))
        else:
            continue
        desc.append((op, list(path)))
    return desc


def ghost_pairs(ri):
    """(element, child name) pairs where the element's rule allows a child for which no element is known (from the live tables)"""
    import lang
    out = []
    for el, rn in ri.mappings.items():
        sp = ri.spec.get(rn)
        if sp is not None:
            for c in dict.fromkeys(lang.names(sp)):
                if c not in ri.mappings:
                    out.append((el, c))
    return out


def ghost_tree(rng, tg):
    """a smallest tree of an element that allows a 'ghost' child, with that child (and something below it) put in"""
    import impl
    pairs = [p for p in ghost_pairs(tg.ri) if tg.productive(p[0])]
    if not pairs:
        return None
    el, c = rng.choice(pairs)
    t = tg.min_tree(el, rng)
    t[8].insert(rng.randint(0, len(t[8])), impl.T(c, None, [impl.T("title", "t", [impl.T("zzDeep", None)])] if rng.random() < 0.6 else []))
    return t


def strip_ids(t):
    t[0] = None
    for k in t[8]:
        strip_ids(k)
