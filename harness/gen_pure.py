"""table-only helpers shared by the translator (witness candidates) and the harness generators; never imports the repository"""
INF = float("inf")

CANON = {'floatContent': ['1.5', '-2', '3e2', '0.0'], 'floatRangeContent_EW': ['-180', '180.0', '0', '12.25', '-1e1'], 'floatRangeContent_NS': ['-90', '90.0', '0', '45.5'], 'floatContent_Nonnegative': ['0', '0.5', '12'], 'intContent': ['0', '42', '-7'], 'timeContent': ['12:30:00', '00:00:00.5'], 'uriContent': ['http://example.org/a', 'https://a.b', 'ftp://host.example/x/y'], 'yearDateContent': ['2020', '1999-12-31']}


def canon_content(content, rng=None):
    crs = content.get("content_rules", [])
    if "content_enum" in content and content["content_enum"]:
        vals = [v for v in content["content_enum"] if isinstance(v, str)]
        return rng.choice(vals) if rng else vals[0]
    if "emptyContent" in crs:
        return None
    for cr in crs:
        if cr in CANON:
            return rng.choice(CANON[cr]) if rng else CANON[cr][0]
    if "nonEmptyContent" in crs:
        return "some text"
    return None


def valid_attrs(aspec, rng=None):
    out = []
    for a, spec in aspec.items():
        if spec[0] or (rng is not None and rng.random() < 0.3):
            out.append([a, (rng.choice(spec[1:]) if rng else spec[1]) if len(spec) > 1 else "v"])
    return out


def min_cost_word(s, cost):
    """cheapest word of the strict language where name n costs cost.get(n, INF); returns (cost, word) or (INF, None)"""
    if s[0] == "leaf":
        _, n, mn, mx = s
        if mx is not None and mn > mx:
            return INF, None
        if mn == 0:
            return 0, []
        c = cost.get(n, INF)
        return (c * mn, [n] * mn) if c < INF else (INF, None)
    if s[0] == "seq":
        tot, out = 0, []
        for it in s[1]:
            c, w = min_cost_word(it, cost)
            if w is None:
                return INF, None
            tot += c; out += w
        return tot, out
    _, alts, mn, mx = s
    if mn == 0:
        return 0, []
    if mx is not None and mn > mx:
        return INF, None
    best = (INF, None)
    for a in alts:
        c, w = min_cost_word(a, cost)
        if w is not None and len(w) == 0:
            c, w = min_cost_nonempty(a, cost)
        if w is not None and c < best[0]:
            best = (c, w)
    if best[1] is None:
        return INF, None
    return best[0] * mn, best[1] * mn


def min_cost_nonempty(s, cost):
    if s[0] == "leaf":
        _, n, mn, mx = s
        k = max(mn, 1)
        c = cost.get(n, INF)
        if (mx is not None and k > mx) or c == INF:
            return INF, None
        return c * k, [n] * k
    if s[0] == "seq":
        base = [min_cost_word(it, cost) for it in s[1]]
        if any(w is None for _, w in base):
            return INF, None
        if any(w for _, w in base):
            return sum(c for c, _ in base), [x for _, w in base for x in w]
        best = (INF, None)
        for it in s[1]:
            c, w = min_cost_nonempty(it, cost)
            if w is not None and c < best[0]:
                best = (c, w)
        return best
    _, alts, mn, mx = s
    if mx == 0:
        return INF, None
    best = (INF, None)
    for a in alts:
        c, w = min_cost_nonempty(a, cost)
        if w is not None and c < best[0]:
            best = (c, w)
    if best[1] is None:
        return INF, None
    k = max(mn, 1)
    return best[0] * k, best[1] * k


