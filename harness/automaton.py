"""Minimal DFA of a rule's (strict) child-sequence language and the W-method conformance suite
(complete for every finite-state validator with at most k states more than the minimal automaton)."""
from collections import deque
import itertools


class NFA:
    def __init__(self):
        self.n = 0
        self.eps = {}
        self.sym = {}

    def new(self):
        self.n += 1
        return self.n - 1

    def add(self, a, x, b):
        if x is None:
            self.eps.setdefault(a, set()).add(b)
        else:
            self.sym.setdefault(a, {}).setdefault(x, set()).add(b)


def build(nfa, s, mixed):
    """returns (start, end) of a fragment for spec s"""
    if s[0] == "leaf":
        _, n, mn, mx = s
        st = cur = nfa.new()
        for _ in range(mn):
            nx = nfa.new(); nfa.add(cur, n, nx); cur = nx
        if mx is None:
            nfa.add(cur, n, cur)
            return st, cur
        end = nfa.new()
        nfa.add(cur, None, end)
        for _ in range(max(0, mx - mn)):
            nx = nfa.new(); nfa.add(cur, n, nx); nfa.add(nx, None, end); cur = nx
        if mx < mn:           # empty language
            dead = nfa.new(); return st, dead
        return st, end
    if s[0] == "seq":
        st = cur = nfa.new()
        for it in s[1]:
            a, b = build(nfa, it, mixed)
            nfa.add(cur, None, a); cur = b
        return st, cur
    _, alts, mn, mx = s
    if mixed:
        mn = 0
    def one_occurrence():
        """union of the alternatives, at least one symbol consumed (strict reading)"""
        a0, b1 = nfa.new(), nfa.new()
        for alt in alts:
            # two copies of the alternative: flag 0 (nothing consumed yet) and flag 1
            sub = NFA(); s0, e0 = build(sub, alt, mixed)
            base0 = nfa.n; nfa.n += sub.n
            base1 = nfa.n; nfa.n += sub.n
            for q, ts in sub.eps.items():
                for r in ts:
                    nfa.add(base0 + q, None, base0 + r); nfa.add(base1 + q, None, base1 + r)
            for q, m in sub.sym.items():
                for x, ts in m.items():
                    for r in ts:
                        nfa.add(base0 + q, x, base1 + r); nfa.add(base1 + q, x, base1 + r)
            nfa.add(a0, None, base0 + s0)
            nfa.add(base1 + e0, None, b1)
        return a0, b1
    st = cur = nfa.new()
    for _ in range(mn):
        a, b = one_occurrence(); nfa.add(cur, None, a); cur = b
    if mx is None:
        a, b = one_occurrence(); nfa.add(cur, None, a); nfa.add(b, None, cur)
        return st, cur
    if mx < mn:
        return st, nfa.new()
    end = nfa.new(); nfa.add(cur, None, end)
    for _ in range(mx - mn):
        a, b = one_occurrence(); nfa.add(cur, None, a); nfa.add(b, None, end); cur = b
    return st, end


def closure(nfa, S):
    S = set(S); stack = list(S)
    while stack:
        q = stack.pop()
        for r in nfa.eps.get(q, ()):
            if r not in S:
                S.add(r); stack.append(r)
    return frozenset(S)


def minimal_dfa(spec, alphabet, mixed):
    nfa = NFA()
    st, en = build(nfa, spec, mixed)
    start = closure(nfa, {st})
    idx = {start: 0}; order = [start]; delta = []
    q = deque([start])
    while q:
        S = q.popleft()
        row = {}
        for x in alphabet:
            T = set()
            for s in S:
                T |= nfa.sym.get(s, {}).get(x, set())
            T = closure(nfa, T)
            if T not in idx:
                idx[T] = len(order); order.append(T); q.append(T)
            row[x] = idx[T]
        delta.append(row)
    acc = [en in S for S in order]
    # Moore minimisation
    part = [int(a) for a in acc]
    while True:
        sig = {}
        newp = []
        for i in range(len(order)):
            key = (part[i],) + tuple(part[delta[i][x]] for x in alphabet)
            newp.append(sig.setdefault(key, len(sig)))
        if len(set(newp)) == len(set(part)):
            part = newp; break
        part = newp
    # renumber with the start class first (BFS order)
    rep = {}
    for i, p in enumerate(part):
        rep.setdefault(p, i)
    cls_order = []; seen = set(); dq = deque([part[0]])
    while dq:
        c = dq.popleft()
        if c in seen:
            continue
        seen.add(c); cls_order.append(c)
        for x in alphabet:
            dq.append(part[delta[rep[c]][x]])
    num = {c: i for i, c in enumerate(cls_order)}
    D = [{x: num[part[delta[rep[c]][x]]] for x in alphabet} for c in cls_order]
    A = [acc[rep[c]] for c in cls_order]
    return D, A


def accepts(D, A, w):
    q = 0
    for x in w:
        q = D[q][x]
    return A[q]


def w_suite(D, A, alphabet, k, cap=None):
    n = len(D)
    # state cover: shortest access words
    access = {0: ()}
    dq = deque([0])
    while dq:
        q = dq.popleft()
        for x in alphabet:
            r = D[q][x]
            if r not in access:
                access[r] = access[q] + (x,); dq.append(r)
    # characterisation set: for every pair of states a distinguishing word (BFS over the pair graph from distinguishable pairs)
    dist = {}
    for p in range(n):
        for q in range(p + 1, n):
            if A[p] != A[q]:
                dist[(p, q)] = ()
    changed = True
    while changed:
        changed = False
        for p in range(n):
            for q in range(p + 1, n):
                if (p, q) in dist:
                    continue
                for x in alphabet:
                    a, b = D[p][x], D[q][x]
                    if a == b:
                        continue
                    key = (min(a, b), max(a, b))
                    if key in dist:
                        dist[(p, q)] = (x,) + dist[key]; changed = True; break
    W = set(dist.values()) or {()}
    W.add(())
    P = set(access.values()) | {access[q] + (x,) for q in access for x in alphabet}
    mids = [()]
    for i in range(1, k + 1):
        mids += list(itertools.product(alphabet, repeat=i))
    suite = set()
    for p in P:
        for m in mids:
            for w in W:
                suite.add(p + m + w)
                if cap and len(suite) >= cap:
                    return suite, n, len(W)
    return suite, n, len(W)
