#!/venv/bin/python
"""./check <id> [--tier quick|thorough] [--replay <path>]   (DESIGN.md 1.2-1.4)

exit 0: the property held on everything explored (KNOWN-FINDING lines may precede)
exit 1: a line `VIOLATION property=<id> replay=<path>[ no-failing-input-found]` was printed
exit 2: infrastructure failure (time-out, harness crash) - never a violation"""
import argparse, importlib, json, os, random, sys, time, traceback

sys.path.insert(0, os.path.dirname(os.path.abspath(__file__)))
import common
from common import log


class Ctx:
    pass


def main():
    ap = argparse.ArgumentParser()
    ap.add_argument("pid")
    ap.add_argument("--tier", default=os.environ.get("VERIF_TIER", "quick"), choices=["quick", "thorough"])
    ap.add_argument("--replay")
    ap.add_argument("--no-build", action="store_true", help="debug: skip translator/build/audit")
    a = ap.parse_args()
    pid = a.pid.upper()
    seed = int(os.environ.get("VERIF_SEED", "0") or 0)
    mod = importlib.import_module(f"props.{pid.lower()}")
    t0 = time.time()

    if a.replay:
        with open(a.replay) as f:
            payload = json.load(f)
        drv = common.Driver()
        out = mod.replay(payload, drv if drv.ok else None)
        print(json.dumps(out, indent=1, default=str))
        return 0

    allf = common.load_findings()
    findings = [f for f in allf.get("findings", []) if f["property"] == pid]
    fixed = [f for f in allf.get("fixed", []) if f["property"] == pid]

    violations = []        # (what, replay payload)
    broken = []            # names of theorems / ties that no longer check
    known_lines = []

    # ---- step 0: replay listed findings and fixed defects on the real code
    import defects_repro
    for f in fixed:
        r = defects_repro.run(f["replay"])
        if r is not None:
            violations.append((f"fixed defect {f['replay']} is back: {r}",
                               {"kind": "fixed-defect-returned", "defect": f["replay"], "observed": r, "entry": f}))
    stale_findings = []
    for f in findings:
        r = mod.replay_finding(f)
        if r is not None:
            known_lines.append(f"KNOWN-FINDING: property={pid} {f['what']}")
        else:
            stale_findings.append(f["id"])

    # ---- steps 1-3: translator, build, audit
    gen_ok = build_ok = True
    leanchecker = "not run (quick tier)"
    gen_msg = build_log = ""
    thms, axioms = [], {}
    forbidden = []
    model_ok = True
    if not a.no_build:
        gen_ok, gen_msg = common.regenerate()
        if not gen_ok:
            broken.append(f"translator: {gen_msg}")
        ok_drv, log_drv = common.lake_build(["driver"]) if gen_ok else (False, "skipped: translator failed")
        model_ok = ok_drv
        if gen_ok and not ok_drv:
            broken.append("lake build driver (Model/Gen no longer compile): " + log_drv[-600:])
        if gen_ok:
            build_ok, build_log = common.lake_build([f"MetapypeModel.Props.{pid}"])
        else:
            build_ok = False
        if not build_ok:
            import re
            errs = re.findall(r"error: ([^\n]*)", build_log)
            broken.append(f"lake build MetapypeModel.Props.{pid}: " + "; ".join(errs[:5]))
        forbidden = common.grep_forbidden()
        if forbidden:
            broken.append("forbidden constructs in lean/: " + "; ".join(forbidden[:5]))
        if build_ok:
            thms, axioms, audit_log = common.audit(pid)
            for t in thms:
                ax = axioms.get(t)
                if ax is None:
                    broken.append(f"audit: #print axioms {t} gave no answer")
                elif not set(ax) <= common.ALLOWED_AXIOMS:
                    broken.append(f"audit: {t} depends on {sorted(set(ax) - common.ALLOWED_AXIOMS)}")
            if a.tier == "thorough":
                # independent re-check of the compiled module (and everything it imports) by leanchecker
                with common.LakeLock():
                    rc_lc, out_lc = common.run(["lake", "env", "leanchecker", f"MetapypeModel.Props.{pid}"], cwd=common.LEAN, timeout=3000)
                leanchecker = "ok" if rc_lc == 0 else "failed"
                if rc_lc != 0:
                    broken.append("leanchecker MetapypeModel.Props." + pid + ": " + out_lc[-400:])
        else:
            thms = common.property_theorems(pid)
    else:
        thms = common.property_theorems(pid)
    discharged = sum(1 for t in thms if build_ok and axioms.get(t) is not None and set(axioms[t]) <= common.ALLOWED_AXIOMS) \
        if not a.no_build else 0

    # ---- steps 4-5: correspondence and property oracle
    ctx = Ctx()
    ctx.pid, ctx.tier, ctx.seed = pid, a.tier, seed
    ctx.rng = random.Random(seed * 1000003 + int(pid[1:]))
    # change-impact: when a source file this property is anchored in (or one it imports) differs from the tree the models were
    # last synchronised with (fingerprints.json), inputs are generated at the thorough tier's size also in the quick tier
    import fingerprint
    anchors = []
    for l in open(os.path.join(common.VERIF, "properties.jsonl")):
        d = json.loads(l)
        if d["id"] == pid:
            anchors = d.get("anchors", {}).get("files", [])
    changed = fingerprint.changed(common.REPO, os.path.join(common.VERIF, "fingerprints.json"))
    touched = sorted(set(changed) & fingerprint.import_closure(common.REPO, anchors)) if changed else []
    if os.environ.get("VERIF_FORCE_ESCALATE") == "1":
        touched = touched or ["<forced>"]
    ctx.escalated = bool(touched) and a.tier == "quick" and os.environ.get("VERIF_NO_ESCALATE") != "1"
    if ctx.escalated:
        log(f"[{pid}] anchored sources changed since the last model sync ({', '.join(touched)}): generating at the thorough size")
        ctx.tier = "thorough"
    drv = common.Driver()
    ctx.driver = drv if (model_ok and drv.ok) else None
    ctx.findings = findings
    ctx.search = False
    try:
        res = mod.run(ctx)
    except RecursionError:
        # the harness walks trees by recursion over `children`; only a structure that contains itself (or an operation that
        # never returns) exhausts the stack. Properties' own loops catch this per case; this is the fallback.
        import traceback
        tb = traceback.format_exc().split("\n")
        res = {"evaluations": 0, "distinct_nontrivial": 0, "rule": "aborted: see oracle failure",
               "oracle_fails": [{"case": {"traceback_head": tb[:12], "traceback_tail": tb[-8:]},
                                 "what": "an operation of the implementation recursed without end or produced a tree that contains itself (the observing walk over children did not terminate)"}]}
    if ctx.driver is None:
        broken.append("correspondence: Lean driver unavailable")
    listed = lambda what_key: any(f.get("key") == what_key for f in findings)
    unlisted_fails = []
    for of in res.get("oracle_fails", []):
        if of.get("key") and listed(of["key"]):
            line = f"KNOWN-FINDING: property={pid} " + next(f["what"] for f in findings if f.get("key") == of["key"])
            if line not in known_lines:
                known_lines.append(line)
        else:
            unlisted_fails.append(of)
    diffs = res.get("corr_diffs", [])
    if diffs:
        broken.append(f"correspondence: model and implementation differ on {len(diffs)} case(s), e.g. {json.dumps(diffs[0], default=str)[:400]}")

    # ---- verdict (DESIGN 1.4)
    for of in unlisted_fails[:1]:
        violations.append((of["what"], {"kind": "property-failure", "property": pid, "case": of.get("case"), "what": of["what"]}))
    searched = None
    if not violations and broken:
        # failing-input search on the implementation with the property oracle
        ctx2 = Ctx()
        ctx2.__dict__.update(ctx.__dict__)
        ctx2.search = True
        ctx2.tier = "thorough"
        ctx2.rng = random.Random(seed + 7919)
        ctx2.seeds = [d.get("case") for d in diffs]
        try:
            sres = mod.run(ctx2)
        except Exception as e:
            sres = {"oracle_fails": []}
            broken.append(f"search crashed: {type(e).__name__}: {e}")
        searched = sres.get("evaluations", 0)
        un = [of for of in sres.get("oracle_fails", []) if not (of.get("key") and listed(of["key"]))]
        if un:
            of = un[0]
            violations.append((of["what"], {"kind": "property-failure", "property": pid, "case": of.get("case"),
                                            "what": of["what"], "found_by": "failing-input search after: " + "; ".join(broken)[:1500]}))

    for l in known_lines:
        print(l)
    rc = 0
    if violations:
        what, payload = violations[0]
        path = common.write_replay(pid, payload)
        print(f"VIOLATION property={pid} replay={path}")
        log("  " + what[:600])
        rc = 1
    elif broken:
        payload = {"kind": "no-failing-input-found", "property": pid, "no_longer_checks": broken,
                   "search_evaluations": searched,
                   "note": "a proof obligation or the model/implementation tie broke; the search of the model and the "
                           "implementation found no input on which the property fails"}
        path = common.write_replay(pid, payload)
        print(f"VIOLATION property={pid} replay={path} no-failing-input-found")
        for b in broken:
            log("  broken: " + b[:600])
        rc = 1

    wall = time.time() - t0
    cov = {
        "obligations": len(thms),
        "discharged": discharged,
        "checker_cmd": f"cd lean && lake build MetapypeModel.Props.{pid} driver && lake env lean .lake/audit_{pid}.lean  (#print axioms of every theorem in Props/{pid}.lean)"
                       + (f" && lake env leanchecker MetapypeModel.Props.{pid}" if a.tier == "thorough" else ""),
        "trusted_base": common.TRUSTED_BASE + mod.TRUSTED,
        "theorems": {t: axioms.get(t) for t in thms},
        "evaluations": res.get("evaluations", 0),
        "distinct_nontrivial": res.get("distinct_nontrivial", 0),
        "rule": res.get("rule", ""),
        "samples": res.get("samples", [])[:8],
        "traces_validated_against_impl": res.get("evaluations", 0) if ctx.driver is not None else 0,
        "model_impl_disagreements": len(diffs),
        "property_oracle_failures": len(res.get("oracle_fails", [])),
        "unspecified_skipped": res.get("unspec", 0),
        "model_drift": res.get("drift", 0),
        "distribution": res.get("distribution", {}),
        "known_findings_seen": known_lines,
        "stale_findings": stale_findings,
        "broken": broken,
        "exhaustive": bool(res.get("exhaustive", False)),
        "translator": gen_msg,
        "leanchecker": leanchecker,
        "sources_changed_since_model_sync": touched,
        "escalated_generation": ctx.escalated,
    }
    for opt in ("states", "transitions"):
        if opt in res:
            cov[opt] = res[opt]
    common.write_evidence(pid, {
        "property_id": pid, "tier": a.tier, "seed": seed, "level": "proof",
        "coverage": cov, "assumptions": mod.TRUSTED, "wall_s": round(wall, 2), "violations": len(violations) + (1 if (broken and not violations) else 0),
    })
    log(f"[{pid}] tier={a.tier} seed={seed} thms={discharged}/{len(thms)} cases={res.get('evaluations', 0)} "
        f"diffs={len(diffs)} oracle_fails={len(res.get('oracle_fails', []))} wall={wall:.1f}s rc={rc}")
    return rc


if __name__ == "__main__":
    try:
        sys.exit(main())
    except SystemExit:
        raise
    except Exception:
        traceback.print_exc()
        sys.exit(2)
