#!/usr/bin/env python
"""Replays of the defects D1-D14 (DESIGN.md section 6) against the real code.
Each function returns None when the property holds on that input and a short
string describing the failure otherwise.  Used by `check` step 0 for the
`fixed:` entries of known_findings.json (they must pass) and by
`./check --defects` for a human-readable table."""
import sys, traceback
from metapype.model.node import Node, Shift
from metapype.eml import validate, rule, names, export, references, evaluate
from metapype.eml.exceptions import MetapypeRuleError
from metapype.model import metapype_io


def _mk(name, kids=(), content=None, attrs=None):
    n = Node(name, content=content)
    for k, v in (attrs or {}).items():
        n.add_attribute(k, v)
    for k in kids:
        n.add_child(k)
    return n


def _both_modes(n):
    """returns (ff, coll) where each is 'ok' | 'rule-error' | 'crash:<T>'"""
    out = []
    try:
        validate.node(n)
        out.append("ok")
    except MetapypeRuleError:
        out.append("rule-error")
    except Exception as e:
        out.append("crash:" + type(e).__name__)
    errs = []
    try:
        validate.node(n, errs)
        out.append("ok" if not errs else "rule-error")
    except Exception as e:
        out.append("crash:" + type(e).__name__)
    return tuple(out)


def D1():
    n = _mk("individualName", [_mk("surName", content="a"), _mk("surName", content="b")])
    r = _both_modes(n)
    return None if r == ("rule-error", "rule-error") else f"individualName[surName,surName] -> {r}"


def D2a():
    r = _both_modes(_mk("westBoundingCoordinate"))
    return None if not any(x.startswith("crash") for x in r) else f"westBoundingCoordinate content None -> {r}"


def D2b():
    r = _both_modes(_mk("westBoundingCoordinate", content="abc"))
    return None if r == ("rule-error", "rule-error") else f"westBoundingCoordinate 'abc' -> {r}"


def D2c():
    bad = []
    for nm in ("westBoundingCoordinate", "northBoundingCoordinate"):
        r = _both_modes(_mk(nm, content="nan"))
        if r != ("rule-error", "rule-error"):
            bad.append((nm, r))
    return None if not bad else f"'nan' accepted by range check: {bad}"


def D3():
    r = _both_modes(_mk("nbits", content="abc"))
    return None if r == ("rule-error", "rule-error") else f"nbits 'abc' -> {r}"


def D4():
    r = _both_modes(_mk("url", content="http://a/\ud800", attrs={}))
    return None if r == ("rule-error", "rule-error") else f"url with lone surrogate -> {r}"


def D5():
    from lxml import etree
    n = _mk("title", content="x", attrs={"lang": 'a"b<&'})
    bad = []
    for nm, f in (("metapype_io.to_xml", metapype_io.to_xml), ("export.to_xml", export.to_xml)):
        try:
            e = etree.fromstring(f(n).encode())
            if e.get("lang") != 'a"b<&':
                bad.append((nm, e.get("lang")))
        except etree.XMLSyntaxError as ex:
            bad.append((nm, "ill-formed"))
    return None if not bad else f"attribute value a\"b<& : {bad}"


def D6a():
    t = metapype_io.from_xml('<a xml:lang="en"/>')
    return None if t.extras == {"xml:lang": "en"} else f"xml:lang imported as {t.extras}"


def D6b():
    t = metapype_io.from_xml("<a> \n</a>")
    return None if t.content is None else f"text ' \\n' kept as {t.content!r} in clean mode"


def D6c():
    t = metapype_io.from_xml("<a>x<!--c-->y<b/><!--d-->z</a>", clean=False)
    got = (t.content, t.children[0].tail)
    return None if got == ("xy", "z") else f"text after comment lost: {got}"


def D7a():
    p = _mk("p", [_mk("a"), _mk("b")])
    b = p.children[1]
    try:
        i = p.shift(b, Shift.RIGHT, sib=False)
    except Exception as e:
        return f"shift(last, RIGHT, sib=False) raised {type(e).__name__}"
    return None if i == 1 and p.children[1] is b else f"returned {i}"


def D7b():
    p = _mk("p", [_mk("a"), _mk("b")])
    a = p.children[0]
    i = p.shift(a, Shift.RIGHT, sib=False)
    return None if p.children[i] is a else f"positional shift returned stale index {i}"


def D7c():
    p = _mk("p", [_mk("a")])
    q = _mk("q", [_mk("a")])
    stranger, new = q.children[0], Node("a")
    try:
        p.replace_child(stranger, new)
    except ValueError:
        pass
    return None if new.parent is None else "failed replace_child re-parented the new child"


def D8a():
    return None if names.ACKNOWLEDGEMENTS == "acknowledgements" else f"names.ACKNOWLEDGEMENTS = {names.ACKNOWLEDGEMENTS!r}"


def D9():
    n = _mk("title", content="a < b & c")
    export.to_xml(n)
    return None if n.content == "a < b & c" else f"export.to_xml rewrote content to {n.content!r}"


def D10():
    r = Node("r"); k1 = Node("k1"); k2 = Node("k2")
    r.add_child(k1); r.add_child(k2); r.add_namespace("a", "u1")
    k1.add_namespace("a", "u2")
    got = (r.nsmap.get("a"), k2.nsmap.get("a"), k1.nsmap.get("a"))
    return None if got == ("u1", "u1", "u2") else f"re-declare on k1 leaked: root/k2/k1 = {got}"


def D11a():
    t = _mk("individualName", [_mk("surName", content="x"), _mk("title", content="t")], content="should be empty")
    validate.prune(t)
    return None if [c.name for c in t.children] == ["surName"] else "disallowed child kept under parent with content error"


def D11b():
    t = _mk("individualName", [_mk("surName", content="x"), _mk("bogusChild")], content="should be empty")
    try:
        validate.prune(t, strict=True)
    except Exception as e:
        return f"strict prune raised {type(e).__name__}"
    return None


def D12a():
    src = _mk("creator", [_mk("individualName", [_mk("surName", content="x")])], attrs={"id": "c1"})
    dst = _mk("associatedParty", [_mk("references", content="c1"), _mk("role", content="r")])
    ds = _mk("dataset", [src, dst])
    references.expand(ds)
    got = [c.name for c in dst.children]
    return None if got == ["individualName", "role"] else f"expanded children order {got}"


def D12b():
    src = _mk("creator", [_mk("individualName", [_mk("surName", content="x")])], attrs={"id": "c1"})
    d1 = _mk("contact", [_mk("references", content="c1")])
    d2 = _mk("contact", [_mk("references", content="nope")])
    ds = _mk("dataset", [src, d1, d2])
    try:
        references.expand(ds)
    except ValueError:
        pass
    got = [c.name for c in d1.children]
    return None if got == ["references"] else f"tree half expanded after dangling reference: {got}"


def D13():
    a = _mk("p", [_mk("x"), _mk("y", content="1")])
    b = _mk("p", [_mk("x"), _mk("y", content="2")])
    return None if Node.is_equal(a, b) is False else "trees differing in second child compare equal"


def D14a():
    ds = _mk("dataset", [_mk("abstract", [_mk("para", [_mk("emphasis", content="x")])])])
    try:
        evaluate.tree(ds, [])
    except Exception as e:
        return f"evaluate.tree raised {type(e).__name__}"
    return None


def D14b():
    try:
        evaluate.node(Node("description"))
    except Exception as e:
        return f"evaluate.node(parentless description) raised {type(e).__name__}"
    return None


def D15():
    from metapype.model import metapype_io
    root = Node("a"); root.nsmap = {"p": "u", "q": "v"}
    child = Node("b"); child.nsmap = {"q": "v", "p": "u"}          # the same bindings, listed in another order
    root.children.append(child); child.parent = root
    t1 = metapype_io.to_json(root)
    back = metapype_io.from_json(t1)
    if list(back.children[0].nsmap.items()) != [("q", "v"), ("p", "u")]:
        return f"child nsmap reloaded as {list(back.children[0].nsmap.items())}"
    if metapype_io.to_json(back) != t1:
        return "re-serialising the loaded tree gives a different JSON text"
    return None


ALL = {k: v for k, v in list(globals().items()) if k.startswith("D") and callable(v)}


def run(name):
    Node.store.clear()
    try:
        return ALL[name]()
    except Exception as e:
        return f"replay itself crashed: {type(e).__name__}: {e}"


if __name__ == "__main__":
    for k in ALL:
        r = run(k)
        print(f"{k:5s} {'ok' if r is None else 'FAILS: ' + r}")
